"""Hypothesis strategies for cache-history cases (plain JSON dicts).

Compatibility is by construction: the backend is drawn first, then a keymap the
backend's key domain accepts, then an argument domain the (module, keymap)
pair accepts, then a result mode the codec round-trips.  What was excluded is
listed in EXCLUSIONS and copied into evidence.
"""
from hypothesis import strategies as st
from . import values as V
from . import cachehist as H

EXCLUSIONS = {
    'raw non-flat keymap with standard (non-safe) caches': 'keys are (args, dict): unhashable; documented as needing hashable keys',
    'raw keys with sqlite backends': 'sqlite3 binds only str/bytes/int/float keys',
    'non-str keys with json file archive': 'JSON object keys are strings',
    "'/' , NUL, '-' in string keys destined for dir archives": "known finding C03 dir-archive key->file-name aliasing (tested in C03 probes)",
    'bare-vararg scalar raw keys with dir archives': "known finding C03: 1 and '1' share a file name",
    'dir source-text archive with keys needing an input file': 'known finding C03/C04: source-text dir archive cannot read back such keys; only md5-style keys used',
    "python-hash keymaps with arguments whose hashes collide (-1/-2, ''/0)": 'python hash is lossy; property speaks of information-preserving keymaps',
    'non-ASCII text in keys of source-text file archives': 'finding D9c (C03/C04): written as latin-1, read as UTF-8 source',
    'equal-but-differently-typed argument values (1, 1.0, True) in pools destined for dir archives': 'a dict merges them, a dir archive files them separately (C03 probe)',
    'nan arguments': 'nan != nan: "the same call" is undefined',
    'tuple/list results with json/sqlite/source codecs': 'outside the codec round-trip domain',
}

SHAPES = [
    {'req': ['x']},
    {'req': ['x'], 'opt': [['y', ['i', 1]]]},
    {'req': ['x', 'y']},
    {'req': ['x'], 'opt': [['y', ['i', 1]]], 'varkw': True},
    {'req': ['x'], 'varargs': True, 'varkw': True},
    {'req': ['x'], 'opt': [['y', ['s', 'd']]], 'varargs': True},
    {'req': ['x'], 'kwopt': [['s', ['i', 2]]]},
    {'req': ['x'], 'opt': [['y', ['i', 1]]], 'kwopt': [['s', ['i', 2]]], 'kwreq': ['r'], 'varkw': True},
    {'req': ['x'], 'varargs': True, 'kwopt': [['s', ['i', 0]]]},      # extra positionals next to a keyword-only parameter
    {'varargs': True},                       # purely variadic: the key is nothing but the flattened arguments
    {'varargs': True, 'varkw': True},
]

# a lone argument and the text it prints as: what a key made of str()/repr() of a bare (unwrapped) argument confuses
LOOKALIKE_ARGS = [(['i', 1], ['s', '1']), (['n'], ['s', 'None']), (['s', 'a'], ['s', "'a'"]), (['i', 0], ['s', '0']), (['t', [['i', 1]]], ['s', '(1,)'])]


def keymap_specs_for(key_req, module, has_varargs, info_preserving_only=True, allow_default=True, unhashable_ok=False):
    """list of keymap specs usable for this backend key requirement"""
    out = []
    flats = [True, False]
    for typed in (False, True):
        for sentinel in (False, True):
            for flat in flats:
                if flat and has_varargs and not sentinel and info_preserving_only:
                    continue                      # not information-preserving by the property's wording
                if not flat and sentinel:
                    continue                      # sentinel only matters for flat keys
                base = {'flat': flat, 'typed': typed, 'sentinel': sentinel}
                # raw
                if key_req in ('hashable', 'fname', 'evalable') or (key_req == 'bindable' and unhashable_ok and module == 'safe'):
                    # (a sqlite table cannot bind a raw tuple key at all: under the safe decorators every call then degrades to plain evaluation)
                    ok = True
                    if not flat and (module != 'safe' or not unhashable_ok):
                        ok = False                # unhashable keys: only the C16 'safe degradation' check uses them
                    if key_req == 'evalable' and (typed or sentinel):
                        ok = False                # repr of a type object / <SENTINEL> cannot be eval-ed back
                    if key_req == 'fname' and (has_varargs or not flat):
                        ok = False                # bare scalars alias (1 vs '1'); non-flat raw is unhashable anyway
                    if ok:
                        out.append(dict(base, cls='keymap', opt=None))
                # named hash
                for alg in ('md5', 'sha1'):
                    out.append(dict(base, cls='hashmap', opt=alg))
                # string
                for enc in (None, 'repr'):
                    if key_req == 'md5only':
                        break
                    if key_req in ('hashable', 'str', 'strsafe', 'fname', 'bindable', 'evalable'):
                        if flat and has_varargs and enc is None:
                            continue              # known finding C10-stringmap-unwrap: f(1) vs f('1')
                        out.append(dict(base, cls='stringmap', opt=enc))
                # pickle
                for ser in (None, 'pickle', 'dill'):
                    if key_req == 'md5only':
                        break
                    kk = 'str' if ser is None else 'bytes'
                    if key_req in ('str', 'strsafe') and kk != 'str':
                        continue
                    out.append(dict(base, cls='picklemap', opt=ser))
    # chained keymaps (first link + this one): the options of the LAST link lay the call out, its encoding is applied last - the produced keys are
    # of this link's kind. Only for the encoding links whose options matter (sentinel / typed)
    for spec in list(out):
        if spec['cls'] != 'keymap' and spec['flat'] and (spec['sentinel'] or spec['typed']):
            out.append(dict(spec, then={'cls': 'stringmap', 'opt': 'repr', 'flat': True, 'typed': False, 'sentinel': False}))
    return out


@st.composite
def arg_values(draw, module, kkind, key_req, rich=False, no_ints=False):
    """one argument value spec, drawn from a domain the configuration accepts"""
    hurt = key_req not in ('fname', 'strsafe')
    if kkind == 'pyhash':
        # python's hash is lossy: hash(-1) == hash(-2), hash('') == hash(0) == 0 ... such pairs are kept out of the pools of the
        # (not information-preserving) default / hashmap(None) keymaps: no negative ints, no empty string
        return draw(st.one_of(st.integers(0, 6).map(lambda i: ['i', i]),
                              V.strs(hurt).filter(lambda sp: sp[1] != ''), V.NONE,
                              st.lists(st.integers(0, 4).map(lambda i: ['i', i]), max_size=2).map(lambda x: ['t', x])))
    if key_req == 'evalable':
        # source-text file archive: non-latin-1 text cannot be written, non-ASCII text cannot be read back
        # (finding D9c, probed in C03/C04) -> ASCII only here
        ascii_alpha = [c for c in V.HURT if ord(c) < 128]
        s = st.lists(st.sampled_from(ascii_alpha), max_size=4).map(lambda cs: ['s', ''.join(cs)])
        base = st.one_of(V.ints(), s, V.NONE, V.BOOLS, V.floats())
        return draw(st.one_of(base, st.lists(base, max_size=2).map(lambda x: ['t', x])))
    if key_req in ('fname', 'strsafe'):
        safe_alpha = ['a', 'b', '1', '_', '.', "'", '"', ' ', ',', '(', 'é', ':', '|', '?', '*', '<', '>', '\\', '=', '+']
        s = st.lists(st.sampled_from(safe_alpha), max_size=4).map(lambda cs: ['s', ''.join(cs)])
        # no equal-but-differently-typed values (1 / 1.0 / True): a dict treats them as one key, a dir archive
        # files them under different names (C03 probes that); keep the pools free of such pairs here
        fl = st.sampled_from([0.5, 2.5, 0.125, 2.675, -1.5, 3.14159, 0.1]).map(lambda x: ['f', repr(x)])
        base = st.one_of(V.ints(), s, V.NONE, fl) if not no_ints else st.one_of(s, V.NONE, fl, fl)
        return draw(st.one_of(base, st.lists(base, max_size=2).map(lambda x: ['t', x])))
    if rich and kkind in ('str', 'bytes', 'raw') and key_req in ('hashable', 'str', 'bindable') and draw(st.integers(0, 9)) == 0:
        return ['R', draw(st.integers(0, 3))]       # a record object whose unknown attributes raise KeyError (see values.Record)
    if rich and kkind in ('str', 'bytes') and draw(st.integers(0, 3)) == 0:
        return draw(V.anyvalues(max_leaves=4, special_floats=False))
    return draw(V.hashables(max_depth=1, special_floats=False, big_ints=True))


@st.composite
def bindings(draw, sig, valstrat):
    names = H.sig_names(sig)
    nreq = len(sig.get('req', []))
    nopt = len(sig.get('opt', []))
    k = nreq + draw(st.integers(0, nopt))
    named = [[n, draw(valstrat)] for n in names[:k]]
    b = {'named': named}
    if sig.get('varargs') and k == len(names) and draw(st.booleans()):
        b['xpos'] = draw(st.lists(valstrat, min_size=1, max_size=2))
    if sig.get('kwreq') or sig.get('kwopt'):
        b['kwonly'] = [[n, draw(valstrat)] for n in sig.get('kwreq', [])] + [[n, draw(valstrat)] for n, _ in sig.get('kwopt', []) if draw(st.booleans())]
    if sig.get('varkw'):
        kws = draw(st.lists(st.sampled_from(['k', 'm', 'zz']), unique=True, max_size=2))
        b['xkw'] = [[n, draw(valstrat)] for n in kws]
    return b


@st.composite
def near_duplicate(draw, b, valstrat, forbidden=()):
    """a binding that differs from b in exactly one bound value (one character for strings):
    the shape that exposes key collisions between 'almost equal' calls"""
    import copy
    nb = copy.deepcopy(b)
    slots = [('named', i) for i in range(len(nb.get('named', [])))] + \
            [('xpos', i) for i in range(len(nb.get('xpos', [])))] + \
            [('kwonly', i) for i in range(len(nb.get('kwonly', [])))] + \
            [('xkw', i) for i in range(len(nb.get('xkw', [])))]
    if not slots:
        return nb            # a call without any argument (purely variadic signatures) has no neighbour
    kind, i = slots[draw(st.integers(0, len(slots) - 1))]
    cur = nb[kind][i] if kind == 'xpos' else nb[kind][i][1]
    if cur[0] == 's' and cur[1] and draw(st.booleans()):
        txt = cur[1]
        pos = draw(st.integers(0, len(txt) - 1))
        ch = draw(st.sampled_from([c for c in ['_', '-', '"', ':', '|', '/', 'a', '1', ' ', '.'] if c not in forbidden]))
        new = ['s', txt[:pos] + ch + txt[pos + 1:]]
    else:
        new = draw(valstrat)
    if kind == 'xpos':
        nb[kind][i] = new
    else:
        nb[kind][i][1] = new
    return nb


CONFUSABLE = ['_', ':', '|', '?', '*', '<', '>', '"', '\\', ' ', '.', ',', "'", '=', '+', '-', '/']


@st.composite
def confusable_pair(draw, b, forbidden=()):
    """two bindings equal to b except that one string argument reads <t>c1<u> in one and <t>c2<u> in the other"""
    import copy
    slots = [('named', i) for i in range(len(b.get('named', []))) if b['named'][i][1][0] == 's'] + \
            [('xpos', i) for i in range(len(b.get('xpos', []))) if b['xpos'][i][0] == 's'] + \
            [('xkw', i) for i in range(len(b.get('xkw', []))) if b['xkw'][i][1][0] == 's']
    if not slots:
        return []
    kind, i = slots[draw(st.integers(0, len(slots) - 1))]
    cur = b[kind][i] if kind == 'xpos' else b[kind][i][1]
    txt = cur[1]
    pos = draw(st.integers(0, len(txt)))
    chars = [c for c in CONFUSABLE if c not in forbidden]
    c1 = draw(st.sampled_from(chars))
    c2 = draw(st.sampled_from([c for c in chars if c != c1]))
    out = []
    for c in (c1, c2):
        nb = copy.deepcopy(b)
        new = ['s', txt[:pos] + c + txt[pos:]]
        if kind == 'xpos':
            nb[kind][i] = new
        else:
            nb[kind][i][1] = new
        out.append(nb)
    return out


def op_table(npool):
    idx = st.integers(0, max(0, npool - 1))
    form = st.integers(0, 41)
    rseed = st.integers(0, 7)
    return {
        'call': st.tuples(st.just('call'), idx, form, rseed).map(list),
        'hammer': st.tuples(st.just('call'), st.integers(0, min(1, npool - 1)), st.just(0), rseed).map(list),
        'burst': st.tuples(st.just('burst'), idx, st.sampled_from([11, 21, 31, 12, 45]), idx).map(list),
        'sweep': st.tuples(st.just('sweep'), idx, st.just(npool)).map(list),
        'dump': st.just(['dump']),
        'load': st.just(['load']),
        'dumpk': st.lists(idx, min_size=1, max_size=3).map(lambda x: ['dumpk', x]),
        'loadk': st.lists(idx, min_size=1, max_size=3).map(lambda x: ['loadk', x]),
        'awrite': st.lists(idx, min_size=1, max_size=6).map(lambda x: ['awrite', x]),
        'cache_get': st.just(['cache_get']),
        'wrapped': st.just(['wrapped']),
        'redecorate': st.just(['redecorate']),
        'reopen': st.just(['reopen']),
        'dumpreopen': st.just(['dumpreopen']),
        'dumpswitch': st.just(['dumpswitch']),
        'fork': st.lists(st.tuples(st.just('call'), idx, form, rseed).map(list), min_size=1, max_size=5).map(lambda x: ['fork', x]),
        'clear': st.just(['clear']),
        'clearkeep': st.just(['clearkeep']),
        'arch_off': st.just(['arch_off']),
        'arch_on': st.just(['arch_on']),
        'arch_query': st.just(['arch_query']),
        'akeys': st.just(['akeys']),
        'reattach': st.just(['reattach']),
        'adel': st.lists(idx, min_size=1, max_size=3).map(lambda x: ['adel', x]),
        'attach': st.just(['attach']),
        'lookup': st.tuples(st.just('lookup'), idx, form).map(list),
        'key': st.tuples(st.just('key'), idx, form).map(list),
    }


@st.composite
def op_lists(draw, weights, npool, min_ops, max_ops):
    names = []
    for name, w in weights.items():
        names.extend([name] * int(w))
    sizes = [x for x in (1, 2, 3, 4, 6, 8, 10, 12, 15, 18, 22, 26, 30, 35, 40, 50, 60, 80) if min_ops <= x <= max_ops] or [min_ops]
    n = draw(st.sampled_from(sizes))
    kinds = draw(st.lists(st.sampled_from(names), min_size=n, max_size=n))
    table = op_table(npool)
    return [draw(table[k]) for k in kinds]


DEFAULT_WEIGHTS = {'call': 12, 'hammer': 0, 'dump': 1, 'load': 1, 'dumpk': 1, 'loadk': 1, 'clear': 1,
                   'clearkeep': 1, 'arch_off': 1, 'arch_on': 1, 'arch_query': 0, 'akeys': 0, 'reattach': 0, 'adel': 0, 'lookup': 0, 'key': 0, 'awrite': 0, 'burst': 0, 'sweep': 0, 'attach': 0, 'redecorate': 0, 'reopen': 0, 'fork': 0, 'dumpreopen': 0, 'dumpswitch': 0}


@st.composite
def cache_cases(draw, modules=('std', 'safe'), algos=tuple(H.ALGOS), maxsizes=(1, 2, 3, 5),
                backends=tuple(H.BACKENDS_ALL), weights=None, max_ops=30, min_ops=1, pool=(3, 7),
                purges=(False, True), shapes=None, allow_default_keymap=True, ms_pos=(False,),
                rich_args=False, info_preserving_only=True, mem_weight=0, extra=None, unhashable_ok=False, prefill_pct=0, raising_pct=0, attach_later_pct=0, confusable_pct=30,
                tols=(None,), deeps=(False,), ignores=(None,), float_pct=0, relpath_pct=0, default_keymap_pct=17, kms_filter=None, twin_pct=None):
    w = dict(DEFAULT_WEIGHTS)
    w.update(weights or {})
    module = draw(st.sampled_from(modules))
    algo = draw(st.sampled_from(algos))
    if mem_weight and draw(st.integers(0, 99)) < mem_weight:
        mem = [b for b in backends if b in H.BACKENDS_MEM]
        backend = draw(st.sampled_from(mem or list(backends)))
    else:
        backend = draw(st.sampled_from(backends))
    key_req = H.backend_key_req(backend)
    sig = draw(st.sampled_from(shapes or SHAPES))
    has_va = bool(sig.get('varargs'))
    kms = keymap_specs_for(key_req, module, has_va, info_preserving_only, unhashable_ok=unhashable_ok)
    if kms_filter is not None:
        kms = [k for k in kms if kms_filter(k)] or kms
    # (source-text directory archives import entries back by name 'K_<key>': the std default's int keys qualify, the safe default's text keys do not)
    use_default = allow_default_keymap and (key_req in ('hashable', 'bindable', 'evalable') or (key_req == 'md5only' and module == 'std')) and not (has_va and info_preserving_only) \
        and draw(st.integers(0, 99)) < default_keymap_pct
    if module == 'safe' and use_default and key_req == 'bindable':
        use_default = True
    if use_default:
        # std default: hashmap(flat=True) python hash -> int keys ; safe default: stringmap(flat=False)
        keymap = None
        kkind = 'pyhash' if module == 'std' else 'str'
        if module == 'safe' and key_req in ('fname', 'strsafe'):
            keymap = draw(st.sampled_from(kms))
            kkind = H.keymap_key_kind(keymap)
    else:
        keymap = draw(st.sampled_from(kms))
        kkind = H.keymap_key_kind(keymap)
    vmode = H.backend_value_mode(backend)
    rmode = draw(st.sampled_from(['str', 'any' if vmode == 'any' else 'scalar']))
    tol = draw(st.sampled_from(tols))
    valstrat = arg_values(module, kkind, key_req, rich=rich_args, no_ints=tol is not None)
    if float_pct and tol is not None:
        near = st.sampled_from([2.5, 2.54, 2.46, 2.449, 0.5, 1.5, -0.5, 14.9, 15.1, 0.05, 0.049, 1.0, 3.14159, 11.0, 19.99]).map(lambda x: ['f', repr(x)])
        valstrat = st.one_of(*([near] * float_pct + [valstrat] * (10 - float_pct)))
    npool = draw(st.integers(pool[0], pool[1]))
    pool_b = []
    forbidden = ('-', '/') if key_req in ('fname', 'strsafe') else (('☃', 'é') if key_req == 'evalable' else ())
    for _ in range(npool):
        if pool_b and draw(st.integers(0, 9)) < 4:
            b = draw(near_duplicate(pool_b[draw(st.integers(0, len(pool_b) - 1))], valstrat, forbidden=forbidden))
        else:
            b = draw(bindings(sig, valstrat))
        if b not in pool_b:
            pool_b.append(b)
    twin_pair = []
    if key_req == 'hashable' and kkind == 'raw' and draw(st.integers(0, 99)) < (twin_pct if twin_pct is not None else (60 if (keymap and keymap.get('typed')) else 20)):
        # equal-but-differently-typed values swapped between two parameters: (x=1, y=1.0) vs (x=1.0, y=1)
        cands = [b for b in pool_b if len(b.get('named', [])) + len(b.get('kwonly', [])) + len(b.get('xkw', [])) >= 2]
        if cands:
            import copy
            b0 = cands[draw(st.integers(0, len(cands) - 1))]
            tw = draw(st.sampled_from([(['i', 1], ['f', '1.0']), (['i', 0], ['B', False]), (['f', '2.0'], ['i', 2])]))
            for pair in (tw, tw[::-1]):
                nb = copy.deepcopy(b0)
                slots = [('named', i) for i in range(len(nb.get('named', [])))] + [('kwonly', i) for i in range(len(nb.get('kwonly', [])))] + \
                        [('xkw', i) for i in range(len(nb.get('xkw', [])))]
                for (kind, i), v in zip(slots[:2], pair):
                    nb[kind][i][1] = list(v)
                if nb not in pool_b:
                    pool_b.append(nb)
                twin_pair.append(pool_b.index(nb))
    if has_va and not H.sig_names(sig) and kkind != 'pyhash' and key_req not in ('evalable',) and draw(st.booleans()):
        # purely variadic function: a pair of one-argument calls whose arguments print alike (1 / '1')
        lookalike = []
        if sig.get('varkw') and draw(st.booleans()):
            # the keyword part of one call spelled as the positionals of the other: f(k=v) and f('k', v) - what the sentinel tells apart
            v = draw(valstrat)
            pair = [{'named': [], 'xkw': [['k', v]]}, {'named': [], 'xpos': [['s', 'k'], v], 'xkw': []}]
        else:
            pair = []
            for spec in draw(st.sampled_from(LOOKALIKE_ARGS)):
                nb = {'named': [], 'xpos': [list(spec)]}
                if sig.get('varkw'):
                    nb['xkw'] = []
                pair.append(nb)
        for nb in pair:
            if nb not in pool_b:
                pool_b.append(nb)
            lookalike.append(pool_b.index(nb))
    else:
        lookalike = None
    has_confusable_pair = False
    if draw(st.integers(0, 99)) < confusable_pct:
        # a pair of calls that differ ONLY in one 'confusable' character of one string argument (x:y / x|y / x_y ...):
        # the shape that exposes a lossy key -> storage-name mapping
        pair = draw(confusable_pair(pool_b[draw(st.integers(0, len(pool_b) - 1))], forbidden))
        pair = [b for b in pair if b not in pool_b]
        pool_b.extend(pair)
        has_confusable_pair = len(pair) == 2          # then they are the last two pool entries
    npool = len(pool_b)
    ops = draw(op_lists(w, npool, min_ops, max_ops))
    attach_later = bool(attach_later_pct and backend.startswith('cache_') and backend != 'cache_null' and draw(st.integers(0, 99)) < attach_later_pct)
    if attach_later:
        # decorated without an archive; the archive is attached through f.archive(obj) a few operations into the history
        j = draw(st.integers(0, min(4, len(ops))))
        ops = ops[:j] + [['attach']] + ops[j:]
    elif prefill_pct and H.backend_archived(backend) and draw(st.integers(0, 99)) < prefill_pct:
        # another session already filled the archive; this one bulk-loads it first
        k = draw(st.integers(1, npool))
        ops = [['awrite', list(range(k))], ['load']] + ops
    case = {
        'module': module, 'algo': algo,
        'maxsize': draw(st.sampled_from(maxsizes)),
        'ms_pos': draw(st.sampled_from(ms_pos)),
        'purge': draw(st.sampled_from(purges)),
        'keymap': keymap, 'backend': backend, 'sig': sig, 'rmode': rmode,
        'pool': pool_b, 'ops': ops,
    }
    if attach_later:
        case['attach_later'] = True
        case['attach_cached'] = draw(st.booleans())
    elif relpath_pct and backend.split('_', 1)[-1].startswith(('dir_', 'file_')) and draw(st.integers(0, 99)) < relpath_pct:
        # directory / single-file archive named by a relative path, and the program changes its working directory during the history
        case['relpath'] = draw(st.sampled_from(['existing', 'new']))
        for _ in range(draw(st.integers(1, 3))):
            j = draw(st.integers(0, len(case['ops'])))
            case['ops'] = case['ops'][:j] + [['chdir', draw(st.integers(0, 1))]] + case['ops'][j:]
    if has_confusable_pair:
        case['confusable_pair'] = True
    if lookalike:
        case['lookalike_pair'] = lookalike
    if len(twin_pair) == 2:
        case['twin_pair'] = twin_pair
    if tol is not None:
        case['tol'] = tol
        case['deep'] = draw(st.sampled_from(deeps))
    ig = draw(st.sampled_from(ignores))
    if ig is not None:
        case['ignore'] = ig
    if raising_pct:
        rz = []
        for i in range(npool):
            if draw(st.integers(0, 99)) < raising_pct:
                rz.append([i, draw(st.sampled_from(['KeyError', 'TypeError', 'ValueError', 'IndexError', 'RuntimeError', 'AttributeError']))])
        case['raising'] = rz
    if extra:
        case.update(extra)
    return case


FAMILIES = {
    'noarch': ('none', 'plain', 'cache_null'),
    'memarch': ('cache_dict',),
    'persist': tuple(b for b in H.BACKENDS_ALL if b.startswith('cache_') and b not in ('cache_null', 'cache_dict')),
    'direct': tuple(b for b in H.BACKENDS_ALL if b.startswith('direct_')),
}


def strata_grid(modules=('std', 'safe'), algos=tuple(H.ALGOS), purges=(False, True), families=('noarch', 'memarch', 'persist', 'direct'),
                backends=None, **kw):
    """stratified generation: one Hypothesis strategy per (module, algo, purge, backend family) so that every combination
    is searched with its own example budget instead of relying on the library's draw distribution"""
    out = []
    for m in modules:
        for a in algos:
            for p in purges:
                if a in ('no', 'inf') and p != purges[0]:
                    continue            # purge is fixed for these classes
                for fam in families:
                    bs = FAMILIES[fam]
                    if backends is not None:
                        bs = tuple(b for b in bs if b in backends)
                    if not bs:
                        continue
                    out.append(('%s/%s/purge=%s/%s' % (m, a, p, fam),
                                cache_cases(modules=(m,), algos=(a,), purges=(p,), backends=bs, **kw)))
    return out
