"""Deterministic scheduler for real processes in vshim step mode (C14).

Each participant is a forked child that blocks before every interposed libc call under the archive root
(and at every sleep) until the scheduler grants one step: exactly one participant runs between two
file-system calls, so an interleaving is a list of small integers that can be generated, shrunk and replayed.
"""
import os, sys, select, signal
from . import core, shim


class Part(object):
    __slots__ = ('pid', 'evr', 'gw', 'resr', 'pending', 'done', 'buf', 'steps', 'alone_tail', 'exited')


def _spawn(fn, root, linger=False):
    import dill
    L = shim.lib()
    evr, evw = os.pipe()
    gr, gw = os.pipe()
    rr, rw = os.pipe()
    sys.stdout.flush()
    sys.stderr.flush()
    pid = os.fork()
    if pid == 0:
        code = 0
        try:
            os.close(evr)
            os.close(gw)
            os.close(rr)
            L.vshim_step(os.fsencode(root), evw, gr)
            try:
                res = ('ok', fn())
            except BaseException as e:
                res = ('exc', type(e).__name__, repr(e))
            L.vshim_disarm()
            with os.fdopen(rw, 'wb') as f:
                f.write(dill.dumps(res))
            if linger:
                # stay alive and idle (handles, connections and whatever locks they still hold stay open) until the scheduler lets go
                os.write(evw, b'%d 0 R DONE -\n' % os.getpid())
                while True:
                    try:
                        if os.read(gr, 1):
                            break
                    except InterruptedError:
                        continue
        except BaseException:
            code = 3
        finally:
            os._exit(code)
    os.close(evw)
    os.close(gr)
    os.close(rw)
    p = Part()
    p.pid, p.evr, p.gw, p.resr, p.pending, p.done, p.buf, p.steps = pid, evr, gw, rr, None, False, b'', 0
    p.alone_tail, p.exited = 0, False
    return p


def _next_event(p, timeout):
    """block until participant p reports its next event or finishes; sets p.pending / p.done"""
    while b'\n' not in p.buf:
        r, _, _ = select.select([p.evr], [], [], timeout)
        if not r:
            raise core.HarnessError('participant %d made no progress for %ss (blocked in a system call?)' % (p.pid, timeout))
        b = os.read(p.evr, 65536)
        if not b:
            p.done = True
            p.exited = True
            p.pending = None
            return
        p.buf += b
    # a path may contain a newline; records start with "<pid> <n> M|R kind "
    line, _, rest = p.buf.partition(b'\n')
    while rest and not rest.split(b' ', 1)[0].isdigit():
        more, _, rest = rest.partition(b'\n')
        line += b'\n' + more
    p.buf = rest
    parts = line.decode('utf-8', 'replace').split(' ', 4)
    if len(parts) > 3 and parts[3] == 'DONE':
        p.done = True            # operation finished; the process lingers, idle
        p.pending = None
        return
    p.pending = (parts[2], parts[3], parts[4] if len(parts) > 4 else '')


def run(fns, root, schedule, timeout=30, max_steps=20000, linger=False):
    """run the participants under the given schedule (list of participant indices; when it is exhausted, or names a
    participant that cannot run, the lowest-numbered runnable participant goes: every schedule is fair and finite).
    A participant parked at a sleep is only chosen when no other can run.
    Returns (results, trace): results[i] = ('ok', value) | ('exc', type, repr); trace = [(i, M|R, kind, path)]"""
    import dill
    parts = []
    try:
        for fn in fns:
            p = _spawn(fn, root, linger)
            parts.append(p)
            _next_event(p, timeout)          # runs (alone) up to its first event
        trace = []
        si = 0
        rr = 0
        steps = 0
        while True:
            runnable = [i for i, p in enumerate(parts) if not p.done]
            if not runnable:
                break
            awake = [i for i in runnable if parts[i].pending[1] != 'sleep']
            cands = awake or runnable
            want = schedule[si] if si < len(schedule) else None
            si += 1
            if want is not None and (want % len(parts)) in cands:
                i = want % len(parts)
            elif want is None:
                i = cands[rr % len(cands)]
                rr += 1
            else:
                i = cands[0]
            p = parts[i]
            trace.append((i,) + p.pending)
            # how many of its most recent steps this participant took while every other participant had already finished its operation
            p.alone_tail = p.alone_tail + 1 if len(runnable) == 1 else 0
            os.write(p.gw, b'x')
            p.steps += 1
            _next_event(p, timeout)
            steps += 1
            if steps > max_steps:
                raise core.HarnessError('schedule did not terminate within %d steps' % max_steps)
        if linger:
            for p in parts:
                if not p.exited:
                    try:
                        os.write(p.gw, b'q')
                    except OSError:
                        pass
        results = []
        for p in parts:
            data = b''
            while True:
                b = os.read(p.resr, 65536)
                if not b:
                    break
                data += b
            results.append(dill.loads(data) if data else ('exc', 'HarnessChildDied', 'no result'))
        run.last_alone_tails = [p.alone_tail for p in parts]
        return results, trace
    finally:
        for p in parts:
            try:
                os.kill(p.pid, signal.SIGKILL)
            except OSError:
                pass
            try:
                os.waitpid(p.pid, 0)
            except OSError:
                pass
            for fd in (p.evr, p.gw, p.resr):
                try:
                    os.close(fd)
                except OSError:
                    pass
