"""Executor for histories over klepto's cache decorators.

run_history(case) builds the decorated function described by the case (a plain
JSON dict), applies the op list and returns a Trace: one record per op with the
observable pre/post state.  All oracles of the cache group (C01 C02 C05 C06 C07
C15 C16 C18 C20) are predicates over a Trace; none of them looks inside the
wrappers' closures.
"""
import os, sys, shutil, tempfile, random, hashlib, inspect, copy
from . import values as V

ALGOS = ['lru', 'mru', 'lfu', 'rr', 'inf', 'no']


def _tmproot():
    root = os.environ.get('VERIF_TMP')
    if root:
        os.makedirs(root, exist_ok=True)
    return root


class Scratch(object):
    """private directory per executed case; removed afterwards"""

    def __init__(self):
        self.path = tempfile.mkdtemp(prefix='kv_', dir=_tmproot())

    def __enter__(self):
        return self

    def __exit__(self, *a):
        shutil.rmtree(self.path, ignore_errors=True)


# ---------------------------------------------------------------------------
# keymaps

def make_keymap(spec):
    """spec: None (decorator default) or
    {'cls': keymap|hashmap|stringmap|picklemap, 'flat':bool, 'typed':bool, 'sentinel':bool, 'opt': str|None}"""
    if spec is None:
        return None
    import klepto.keymaps as km
    if spec.get('then'):
        # chained keymaps: THEN + BASE encodes the call with BASE and then the resulting key with THEN (klepto: 'hp = p + h')
        return make_keymap(spec['then']) + make_keymap(dict((k, v) for k, v in spec.items() if k != 'then'))
    kw = {'flat': bool(spec.get('flat', True)), 'typed': bool(spec.get('typed', False))}
    if spec.get('sentinel'):
        kw['sentinel'] = km.SENTINEL
    cls = spec['cls']
    opt = spec.get('opt')
    if cls == 'keymap':
        return km.keymap(**kw)
    if cls == 'hashmap':
        return km.hashmap(algorithm=opt, **kw)
    if cls == 'stringmap':
        return km.stringmap(encoding=opt, **kw)
    if cls == 'picklemap':
        if spec.get('proto') is not None:
            kw['protocol'] = spec['proto']                  # encoder configuration that changes the bytes
        if opt == 'dill-module':
            import dill
            return km.picklemap(serializer=dill, **kw)      # the module form the docstring asks for
        return km.picklemap(serializer=opt, **kw)
    raise ValueError(cls)


def keymap_info_preserving(spec, has_varargs):
    """the property's own wording: raw / string / pickle / named-algorithm hash;
    non-flat, or flat with a sentinel, or signature without *args"""
    if spec is None:
        return False          # decorator default is python-hash
    if spec['cls'] == 'hashmap' and not spec.get('opt'):
        return False
    if not spec.get('flat', True):
        return True
    return bool(spec.get('sentinel')) or not has_varargs


def keymap_key_kind(spec):
    """what the produced keys look like: 'raw', 'str', 'bytes', 'pyhash'"""
    if spec is None:
        return 'pyhash'
    c = spec['cls']
    if c == 'keymap':
        return 'raw'
    if c == 'hashmap':
        return 'str' if spec.get('opt') else 'pyhash'
    if c == 'stringmap':
        return 'str'
    if c == 'picklemap':
        return 'str' if spec.get('opt') in (None, 'json') else 'bytes'
    raise ValueError(c)


# ---------------------------------------------------------------------------
# backends

BACKENDS_MEM = ['none', 'plain', 'cache_null', 'cache_dict', 'direct_dict']
BACKENDS_FILE = ['cache_file_pkl', 'cache_file_json', 'cache_file_src', 'direct_file_pkl']
BACKENDS_DIR = ['cache_dir_dill', 'cache_dir_fast', 'cache_dir_z', 'cache_dir_json', 'cache_dir_src', 'direct_dir_dill']
BACKENDS_SQL = ['cache_sql_mem', 'cache_sql_file', 'direct_sql_mem']
BACKENDS_ALL = BACKENDS_MEM + BACKENDS_FILE + BACKENDS_DIR + BACKENDS_SQL


def backend_archived(kind):
    return kind.startswith('cache_') and kind != 'cache_null'


def backend_persistent(kind):
    return kind.split('_', 1)[-1] in ('file_pkl', 'file_json', 'file_src', 'dir_dill', 'dir_fast', 'dir_z',
                                       'dir_json', 'dir_src', 'sql_file')


def backend_value_mode(kind):
    """which result values the codec round-trips type-exactly"""
    tail = kind.split('_', 1)[-1] if '_' in kind else kind
    if tail in ('file_json', 'dir_json'):
        return 'json'
    if tail in ('sql_mem', 'sql_file'):
        return 'sql'
    if tail in ('file_src', 'dir_src'):
        return 'src'
    return 'any'


def backend_key_req(kind):
    """what keys the backend accepts: 'hashable', 'str', 'bindable', 'fname'"""
    tail = kind.split('_', 1)[-1] if '_' in kind else kind
    if tail in ('file_json',):
        return 'str'
    if tail in ('dir_json',):
        return 'strsafe'
    if tail in ('dir_src',):
        return 'md5only'
    if tail.startswith('sql'):
        return 'bindable'
    if tail.startswith('dir'):
        return 'fname'
    if tail in ('file_src',):
        return 'evalable'
    return 'hashable'


def open_backend(kind, root, name='A', cached=None, relative=False):
    """create (or re-open) the cache object handed to the decorator.
    relative: directory and single-file archives are named by a RELATIVE path (the caller has made root the working directory)"""
    import klepto.archives as ka
    if relative and kind.split('_', 1)[-1].startswith(('dir_', 'file_')):
        root = ''             # os.path.join('', 'A_d') == 'A_d'
    if kind == 'none':
        return None
    if kind == 'plain':
        return {}
    pre, tail = kind.split('_', 1)
    cached = (pre == 'cache') if cached is None else cached
    if tail == 'null':
        return ka.null_archive(name, cached=cached)
    if tail == 'dict':
        return ka.dict_archive(name, cached=cached)
    if tail == 'file_pkl':
        return ka.file_archive(os.path.join(root, name + '.pkl'), cached=cached)
    if tail == 'file_json':
        return ka.file_archive(os.path.join(root, name + '.json'), cached=cached, protocol='json')
    if tail == 'file_src':
        # the import-based reader chdir()s next to the file and imports by bare name: it can only
        # read when '' (cwd) is on sys.path, as in an interactive / -c / -m session (finding D9b, C04)
        if '' not in sys.path:
            sys.path.insert(0, '')
        return ka.file_archive(os.path.join(root, name + '_src.py'), cached=cached, serialized=False)
    if tail == 'dir_dill':
        return ka.dir_archive(os.path.join(root, name + '_d'), cached=cached)
    if tail == 'dir_fast':
        return ka.dir_archive(os.path.join(root, name + '_f'), cached=cached, fast=True)
    if tail == 'dir_z':
        return ka.dir_archive(os.path.join(root, name + '_z'), cached=cached, compression=3)
    if tail == 'dir_json':
        return ka.dir_archive(os.path.join(root, name + '_j'), cached=cached, protocol='json')
    if tail == 'dir_src':
        return ka.dir_archive(os.path.join(root, name + '_s'), cached=cached, serialized=False)
    if tail == 'sql_mem':
        return ka.sqltable_archive(None, cached=cached)
    if tail == 'sql_file':
        return ka.sqltable_archive('sqlite:///%s?table=%s' % (os.path.join(root, 'db.sqlite'), name), cached=cached)
    raise ValueError(kind)


# ---------------------------------------------------------------------------
# generated functions

def sig_source(sig, fname='f'):
    """sig: {'req':[names], 'opt':[[name, spec]], 'varargs':bool, 'kwreq':[names],
             'kwopt':[[name,spec]], 'varkw':bool}"""
    parts = list(sig.get('req', []))
    parts += ['%s=_D[%r]' % (n, n) for n, _ in sig.get('opt', [])]
    if sig.get('varargs'):
        parts.append('*_a')
    elif sig.get('kwreq') or sig.get('kwopt'):
        parts.append('*')
    parts += list(sig.get('kwreq', []))
    parts += ['%s=_D[%r]' % (n, n) for n, _ in sig.get('kwopt', [])]
    if sig.get('varkw'):
        parts.append('**_k')
    names = list(sig.get('req', [])) + [n for n, _ in sig.get('opt', [])] + list(sig.get('kwreq', [])) + \
        [n for n, _ in sig.get('kwopt', [])]
    named = '(' + ''.join('(%r, %s), ' % (n, n) for n in names) + ')'
    va = '_a' if sig.get('varargs') else '()'
    vk = '_k' if sig.get('varkw') else '{}'
    return 'def %s(%s):\n    return _body(%s, %s, %s)\n' % (fname, ', '.join(parts), named, va, vk)


def sig_names(sig):
    return list(sig.get('req', [])) + [n for n, _ in sig.get('opt', [])]


def result_of(c, mode, salt=''):
    """deterministic, equality-respecting result for canonical bound args c (salt: another function of the same arguments)"""
    h = int(hashlib.md5((repr(c) + salt).encode()).hexdigest()[:8], 16)
    if mode == 'str':
        return 'r%06x' % (h % (1 << 24))
    sel = h % 8
    if sel == 0:
        return 0
    if sel == 1:
        return ''
    if sel == 2:
        return None
    if sel == 3:
        return (h % 997) / 8.0
    if sel == 4 and mode == 'any':
        return (h % 997, 'r%x' % (h % 4093))
    if sel == 5 and mode == 'any':
        return ['l', h % 13]
    if sel == 6:
        return h % 100003
    return 'r%06x' % (h % (1 << 24))


class Fn(object):
    """a generated deterministic function + its reference twin + evaluation log"""

    def __init__(self, sig, mode='str', raising=None, typed_top=False, salt=''):
        self.sig = sig
        self.mode = mode
        self.salt = salt
        # with a typed keymap 1, 1.0 and True are DIFFERENT arguments at top level (klepto promises separate entries), so the generated
        # function may (and does) return different results for them; with an untyped keymap it must not (raw keys merge them legitimately)
        self.typed_top = typed_top
        self.log = []                 # one entry per evaluation: canonical bound args
        self.received = []            # the (named, varargs, varkw) objects as received
        self.raising = raising or {}  # canon -> exception instance
        defaults = dict((n, V.build(s)) for n, s in list(sig.get('opt', [])) + list(sig.get('kwopt', [])))
        src = sig_source(sig)
        ns = {'_D': defaults, '_body': self._body}
        exec(compile(src, '<generated f>', 'exec'), ns)
        self.f = ns['f']
        ns2 = {'_D': defaults, '_body': self._ref_body}
        exec(compile(src, '<generated ref>', 'exec'), ns2)
        self.ref = ns2['f']
        self.source = src

    def set_raising(self, cfg, raising):
        """raising: [[pool index, exception class name], ...]; one pre-built exception instance per argument tuple"""
        import builtins
        ns = {'_D': dict((n, V.build(s)) for n, s in list(self.sig.get('opt', [])) + list(self.sig.get('kwopt', []))),
              '_body': self._canon}
        exec(compile(self.source, '<generated canon>', 'exec'), ns)
        for i, cls in raising:
            a, k = spell(self.sig, cfg['pool'][i % len(cfg['pool'])], 0)
            c = ns['f'](*a, **k)
            if c not in self.raising:
                e = getattr(builtins, cls)('generated failure #%d' % i)
                # every second one carries an explicit cause (as after `raise X from Y`); the cause is part of what the caller must receive
                e._vcause = LookupError('root cause of failure #%d' % i) if i % 2 else None
                if e._vcause is not None:
                    e.__cause__ = e._vcause
                self.raising[c] = e

    def _canon(self, named, va, vk):
        if self.typed_top:
            T = lambda v: (type(v).__name__, V.canon(v))
        else:
            T = V.canon
        return (tuple((n, T(v)) for n, v in named), tuple(T(v) for v in va),
                tuple(sorted((k, T(v)) for k, v in vk.items())))

    def _body(self, named, va, vk):
        c = self._canon(named, va, vk)
        self.log.append(c)
        self.received.append((named, va, vk))
        exc = self.raising.get(c)
        if exc is not None:
            raise exc
        return result_of(c, self.mode, self.salt)

    def _ref_body(self, named, va, vk):
        c = self._canon(named, va, vk)
        exc = self.raising.get(c)
        if exc is not None:
            raise exc
        return result_of(c, self.mode, self.salt)


def spell(sig, binding, form):
    """derive one concrete call spelling (args, kwds) of a binding.
    binding: {'named': [[name, spec]...] (a subset incl. all required, in signature order),
              'xpos': [specs], 'xkw': [[name, spec]...], 'kwonly': [[name, spec]]}
    form: non-negative int choosing the spelling; form=0 is 'all positional where possible'."""
    names = sig_names(sig)
    named = [(n, V.build(s)) for n, s in binding.get('named', [])]
    given = dict(named)
    xpos = [V.build(s) for s in binding.get('xpos', [])]
    kwonly = [(n, V.build(s)) for n, s in binding.get('kwonly', [])]
    xkw = [(n, V.build(s)) for n, s in binding.get('xkw', [])]
    # longest gap-free prefix of the parameter list that is supplied
    prefix = 0
    for n in names:
        if n in given:
            prefix += 1
        else:
            break
    if xpos:
        npos = prefix            # extras force every named parameter positional
    else:
        npos = prefix - (form % (prefix + 1))
    args = [given[n] for n in names[:npos]] + xpos
    kw_items = [(n, given[n]) for n in names[npos:] if n in given] + kwonly + xkw
    rot = (form // 7) % (len(kw_items) or 1)
    kw_items = kw_items[rot:] + kw_items[:rot]
    if (form // 3) % 2:
        kw_items.reverse()
    return tuple(args), dict(kw_items)


# ---------------------------------------------------------------------------
# decorator construction

def decorator_class(module, algo):
    """algo: 'lru' ... or 'lru:None' / 'lru:0' = the bounded class asked for maxsize None / 0 (dispatches to inf_cache / no_cache
    inside klepto: every other setting - keymap, ignore, tol, deep - must survive that dispatch)"""
    import klepto, klepto.safe
    mod = klepto.safe if module == 'safe' else klepto
    if ':' in algo:
        base, ms = algo.split(':')
        cls = getattr(mod, base + '_cache')
        msv = None if ms == 'None' else int(ms)

        def factory(**kw):
            return cls(maxsize=msv, **kw)
        return factory
    return getattr(mod, algo + '_cache')


DISPATCHED = ['lru:None', 'lfu:None', 'mru:None', 'rr:None']


def build_decorator(cfg, cacheobj):
    cls = decorator_class(cfg['module'], cfg['algo'])
    kw = {}
    args = []
    ms = cfg.get('maxsize', 'default')
    if cfg['algo'] in ('no', 'inf'):
        ms = 'default'
    if ms != 'default':
        if cfg.get('ms_pos'):
            args.append(ms)
        else:
            kw['maxsize'] = ms
    if cacheobj is not None:
        kw['cache'] = cacheobj
    km = make_keymap(cfg.get('keymap'))
    if km is not None:
        kw['keymap'] = km
    if cfg.get('ignore') is not None:
        ig = cfg['ignore']
        kw['ignore'] = tuple(ig) if isinstance(ig, list) else ig
    if cfg.get('tol') is not None:
        kw['tol'] = cfg['tol']
    if cfg.get('deep'):
        kw['deep'] = True
    if cfg.get('purge') is not None and cfg['algo'] not in ('no', 'inf'):
        kw['purge'] = bool(cfg['purge'])
    return cls(*args, **kw)


def effective_maxsize(cfg):
    if cfg['algo'] == 'no':
        return 0
    if cfg['algo'] == 'inf':
        return None
    ms = cfg.get('maxsize', 'default')
    return 100 if ms == 'default' else ms


def effective_algo(cfg):
    ms = effective_maxsize(cfg)
    if ms == 0:
        return 'no'
    if ms is None:
        return 'inf'
    return cfg['algo']


def effective_purge(cfg):
    a = effective_algo(cfg)
    if a == 'no':
        return True
    if a == 'inf':
        return False
    return bool(cfg.get('purge', False))


# ---------------------------------------------------------------------------
# observation

def mem_snapshot(c):
    """resident entries of the decorator's cache object"""
    from klepto.archives import cache as kcache
    if isinstance(c, kcache):
        return dict(dict.items(c))
    if hasattr(c, '__asdict__'):
        return dict(c.__asdict__())
    return dict(c)


def arch_snapshot(c):
    """contents of the attached archive if archiving is on, else None"""
    try:
        if not c.archived():
            return None
    except Exception:
        return None
    return dict(c.archive.__asdict__())


class Step(object):
    __slots__ = ('op', 'kind', 'pre_mem', 'pre_arch', 'pre_info', 'post_mem', 'post_arch', 'post_info',
                 'result', 'exc', 'evals', 'key', 'key_exc', 'args', 'kwds', 'expected', 'expected_exc', 'rseed', 'extra', 'session')

    def __init__(self, **kw):
        for s in self.__slots__:
            setattr(self, s, kw.get(s))


class Trace(object):
    def __init__(self, cfg):
        self.cfg = cfg
        self.steps = []
        self.setup_exc = None
        self.sessions = []
        self.fn = None
        self.f = None
        self.cache = None


def info_tuple(f):
    i = f.info()
    return (i.hit, i.miss, i.load, i.maxsize, i.size)


class Session(object):
    """a live decorated function plus what is needed to step it"""

    def __init__(self, cfg, root, fn=None, cacheobj='open', name='A'):
        self.cfg = cfg
        self.root = root
        self.fn = fn or Fn(cfg['sig'], cfg.get('rmode', 'str'), None, typed_top=bool(cfg.get('keymap') and cfg['keymap'].get('typed')))
        if fn is None and cfg.get('raising'):
            self.fn.set_raising(cfg, cfg['raising'])
        if cacheobj == 'open':
            rel = bool(cfg.get('relpath')) and cfg['backend'].split('_', 1)[-1].startswith(('dir_', 'file_')) and not cfg.get('attach_later')
            if rel:
                # the archive is named relative to the working directory of the moment; 'existing': the directory is already there (a later session)
                if cfg['relpath'] == 'existing' and cfg['backend'].split('_', 1)[-1].startswith('dir_'):
                    os.makedirs(os.path.join(root, name + {'dir_dill': '_d', 'dir_fast': '_f', 'dir_z': '_z', 'dir_json': '_j', 'dir_src': '_s'}[cfg['backend'].split('_', 1)[-1]]), exist_ok=True)
                os.chdir(root)
            # 'attach_later': the function is decorated WITHOUT an archive; a history op attaches one through the public f.archive(obj)
            cacheobj = None if cfg.get('attach_later') else open_backend(cfg['backend'], root, name, relative=rel)
        self.cacheobj = cacheobj
        self.dec = build_decorator(cfg, cacheobj)
        self.f = self.dec(self.fn.f)
        self.cache = self.f.__cache__()

    def call_args(self, op):
        b = self.cfg['pool'][op[1] % len(self.cfg['pool'])]
        form = op[2] if len(op) > 2 else 0
        return spell(self.cfg['sig'], b, form)


class ObservationFailed(Exception):
    """the harness could not read a cache or archive through its public mapping interface (items() raised)"""
    def __init__(self, msg, cause):
        Exception.__init__(self, msg)
        self.__traceback__ = cause.__traceback__        # so that exc_sig() names the klepto frame that raised


def apply_op(sess, op, trace, observe=True, prev=None):
    """apply one op to a session; append a Step. Returns the Step."""
    f, fn, cache = sess.f, sess.fn, sess.cache
    kind = op[0]
    st = Step(op=op, kind=kind)
    if observe:
        if prev is not None and prev.post_mem is not None:
            st.pre_mem, st.pre_arch, st.pre_info = prev.post_mem, prev.post_arch, prev.post_info
        else:
            try:
                st.pre_mem, st.pre_arch, st.pre_info = mem_snapshot(cache), arch_snapshot(cache), info_tuple(f)
            except Exception as e:
                # the cache / archive cannot even be read through its public interface: reported as this step's failure, not as a harness error
                st.exc = ObservationFailed('reading the cache / archive before %r raised %r' % (op, e), e)
                st.pre_mem, st.pre_arch, st.pre_info = {}, None, (0, 0, 0, None, 0)
                st.post_mem, st.post_arch, st.post_info = {}, None, (0, 0, 0, None, 0)
                st.evals = 0
                trace.steps.append(st)
                return st
    n0 = len(fn.log)
    try:
        if kind in ('call', 'lookup', 'key'):
            a, k = sess.call_args(op)
            st.args, st.kwds = a, k
            if kind == 'call':
                try:
                    st.key = f.key(*a, **k)
                except BaseException as e:     # safe caches may still answer
                    st.key_exc = e
                try:
                    st.expected = fn.ref(*a, **k)
                except BaseException as e:
                    st.expected_exc = e
                rs = op[3] if len(op) > 3 else 0
                st.rseed = rs
                random.seed(rs)
                st.result = f(*a, **k)
            elif kind == 'lookup':
                try:
                    st.extra = f.key(*a, **k) in cache     # residency as the cache object itself sees it
                except Exception:
                    st.extra = None
                st.result = f.lookup(*a, **k)
            else:
                st.result = f.key(*a, **k)
        elif kind == 'dump':
            f.dump()
        elif kind == 'load':
            f.load()
        elif kind in ('dumpk', 'loadk'):
            keys = []
            for i in op[1]:
                a, k = sess.call_args(['call', i, 0])
                kk = f.key(*a, **k)
                try:
                    hash(kk)
                except TypeError:
                    continue          # not a usable dictionary key (safe caches evaluate directly)
                keys.append(kk)
            (f.dump if kind == 'dumpk' else f.load)(*keys)
        elif kind == 'awrite':
            # direct write of *correct* entries into the attached archive (another session's work)
            if cache.archived():
                for i in op[1]:
                    a, k = sess.call_args(['call', i, 0])
                    kk = f.key(*a, **k)
                    try:
                        hash(kk)
                    except TypeError:
                        continue
                    try:
                        val = fn.ref(*a, **k)
                    except Exception:
                        continue      # the function raises for this call: nothing to archive
                    cache.archive.update({kk: val})
        elif kind == 'clear':
            f.clear()
        elif kind == 'clearkeep':
            f.clear(keepstats=True)
        elif kind == 'arch_off':
            f.archived(False)
        elif kind == 'arch_on':
            f.archived(True)
        elif kind == 'attach':
            if sess.cfg.get('attach_later') and not getattr(sess, 'attached', False):
                # the archive is handed over either bare or as the cached handle every klepto.archives constructor returns by default
                f.archive(open_backend(sess.cfg['backend'], sess.root, 'A', cached=bool(sess.cfg.get('attach_cached'))))
                sess.attached = True
                st.result = bool(f.archived())
        elif kind == 'chdir':
            # the program moves to another working directory (or back): an attached archive stays where it is
            target = sess.root if not op[1] else os.path.join(sess.root, 'elsewhere')
            os.makedirs(target, exist_ok=True)
            os.chdir(target)
        elif kind == 'reattach':
            # the archive is REPLACED by another one of the same kind (elsewhere) through the public f.archive(obj), while archiving is on
            if backend_archived(sess.cfg['backend']) and cache.archived() and not (sess.cfg.get('attach_later') and not getattr(sess, 'attached', False)):
                sess.nre = getattr(sess, 'nre', 0) + 1
                f.archive(open_backend(sess.cfg['backend'], sess.root, 'R%d' % sess.nre, cached=False))
                st.result = 'reattached'
        elif kind == 'adel':
            # somebody else (another session) removes entries from the attached archive
            if cache.archived():
                for i in op[1]:
                    a, k = sess.call_args(['call', i, 0])
                    kk = f.key(*a, **k)
                    try:
                        hash(kk)
                    except TypeError:
                        continue
                    cache.archive.pop(kk, None)
                st.result = 'deleted'
        elif kind == 'akeys':
            # somebody lists the stored keys (no values read)
            st.result = len(list(cache.archive.keys() if cache.archived() else cache.keys()))
        elif kind == 'arch_query':
            st.result = f.archived()
        elif kind == 'cache_get':
            st.result = f.__cache__() is cache
        elif kind == 'wrapped':
            st.result = f.__wrapped__ is fn.f
        else:
            raise ValueError('unknown op %r' % (op,))
    except BaseException as e:
        if isinstance(e, (KeyboardInterrupt, SystemExit, MemoryError)):
            raise
        st.exc = e
    st.evals = len(fn.log) - n0
    if observe:
        try:
            st.post_mem, st.post_arch, st.post_info = mem_snapshot(cache), arch_snapshot(cache), info_tuple(f)
        except Exception as e:
            if st.exc is None:
                st.exc = ObservationFailed('reading the cache / archive after %r raised %r' % (op, e), e)
            st.post_mem, st.post_arch, st.post_info = {}, None, (0, 0, 0, None, 0)
    trace.steps.append(st)
    return st


def expand_ops(ops):
    """['burst', i, n, j] = n calls alternating pool entries i and j (hits once resident):
    the way to push the LRU usage queue past its compaction threshold"""
    out = []
    for op in ops:
        if op[0] == 'dumpreopen':
            out.append(['dump'])
            out.append(['reopen'])
        elif op[0] == 'dumpswitch':
            out.append(['dump'])
            out.append(['switch'])
        elif op[0] == 'sweep':
            # one call of every pool entry, starting at entry op[1] (a run of distinct arguments: fills and overflows the cache)
            n = op[2]
            for t in range(n):
                out.append(['call', op[1] + t, 0, 0])
        elif op[0] == 'burst':
            i, n = op[1], op[2]
            j = op[3] if len(op) > 3 else i
            for t in range(n):
                out.append(['call', i if t % 2 == 0 else j, 0, 0])
        else:
            out.append(op)
    return out


def run_history(case, root=None, ops=None, fork_check=None):
    """build the decorated function of `case` and apply its ops; returns Trace.
    Session ops: ['redecorate'] new function object + decorator instance on the same cache object;
    ['reopen'] new decorator on a fresh handle to the same location (persistent backends; else = redecorate);
    ['fork', [ops]] a forked child process re-creates the decorated function on the archive location, applies ops and
    returns fork_check(case, child_trace) through a pipe."""
    cfg = case
    tr = Trace(cfg)
    own = None
    if root is None:
        own = Scratch()
        root = own.path
    sessions = []
    cwd0 = os.getcwd()
    try:
        try:
            sess = Session(cfg, root)
        except BaseException as e:
            if isinstance(e, (KeyboardInterrupt, SystemExit, MemoryError)):
                raise
            tr.setup_exc = e
            return tr
        sessions.append(sess)
        tr.fn, tr.f, tr.cache = sess.fn, sess.f, sess.cache
        tr.sessions = sessions
        prev = None
        other = None
        for op in expand_ops(ops if ops is not None else cfg['ops']):
            if op[0] in ('redecorate', 'reopen'):
                st = Step(op=op, kind=op[0])
                try:
                    if op[0] == 'reopen' and backend_persistent(cfg['backend']):
                        sess = Session(cfg, root)
                    else:
                        sess = Session(cfg, root, cacheobj=sess.cacheobj)
                    if cfg.get('raising'):
                        pass
                    sessions.append(sess)
                except BaseException as e:
                    if isinstance(e, (KeyboardInterrupt, SystemExit, MemoryError)):
                        raise
                    st.exc = e
                st.evals = 0
                tr.steps.append(st)
                prev = None
                continue
            if op[0] == 'switch':
                # TWO live decorated functions, each with its own handle on the same persistent location, used in turn
                # (the first switch creates the second one; later switches alternate). Elsewhere: nothing happens.
                st = Step(op=op, kind='switch')
                st.evals = 0
                if backend_persistent(cfg['backend']) and not cfg.get('attach_later'):
                    try:
                        if other is None:
                            other, sess = sess, Session(cfg, root)
                            sessions.append(sess)
                        else:
                            other, sess = sess, other
                    except BaseException as e:
                        if isinstance(e, (KeyboardInterrupt, SystemExit, MemoryError)):
                            raise
                        st.exc = e
                    st.result = 'switched'
                tr.steps.append(st)
                prev = None
                continue
            if op[0] == 'fork':
                st = Step(op=op, kind='fork')
                st.evals = 0
                try:
                    st.result = _fork_session(cfg, root, op[1], fork_check)
                except BaseException as e:
                    if isinstance(e, (KeyboardInterrupt, SystemExit, MemoryError)):
                        raise
                    st.exc = e
                tr.steps.append(st)
                prev = None
                continue
            prev = apply_op(sess, op, tr, prev=prev)
            prev.session = len(sessions) - 1
        for x in sessions:
            _close(x.cache)
        return tr
    finally:
        os.chdir(cwd0)
        if own is not None:
            shutil.rmtree(own.path, ignore_errors=True)


def _fork_session(cfg, root, ops, fork_check):
    """run ops in a forked child on a fresh handle; returns list of (sig, detail) from fork_check"""
    import pickle
    r, w = os.pipe()
    pid = os.fork()
    if pid == 0:
        code = 0
        try:
            os.close(r)
            tr2 = Trace(cfg)
            try:
                s2 = Session(cfg, root)
                tr2.fn, tr2.f, tr2.cache = s2.fn, s2.f, s2.cache
                prev = None
                for op in expand_ops(ops):
                    prev = apply_op(s2, op, tr2, prev=prev)
            except BaseException as e:
                tr2.setup_exc = e
            res = fork_check(cfg, tr2) if fork_check else []
            data = pickle.dumps([(d.sig, str(d.detail)) for d in res])
            with os.fdopen(w, 'wb') as f:
                f.write(data)
        except BaseException:
            code = 3
        finally:
            os._exit(code)
    os.close(w)
    with os.fdopen(r, 'rb') as f:
        data = f.read()
    _, status = os.waitpid(pid, 0)
    if status != 0 or not data:
        raise RuntimeError('forked session failed (status %r)' % status)
    return pickle.loads(data)


def _close(c):
    for obj in (c, getattr(c, 'archive', None), getattr(c, '__swap__', None)):
        conn = getattr(obj, '_conn', None)
        if conn is not None:
            try:
                conn.close()
            except Exception:
                pass


def exc_sig(e):
    """exception type + innermost klepto frame (root-cause bucketing key)"""
    import traceback
    tb = traceback.extract_tb(e.__traceback__)
    where = ''
    for fr in tb:
        if os.sep + 'klepto' + os.sep in fr.filename:
            where = '%s:%s' % (os.path.basename(fr.filename), fr.name)
    return '%s@%s' % (type(e).__name__, where or '?')
