"""Signatures, bindings and call spellings for the key-group properties.

A signature spec is {'req':[..], 'opt':[[name, defaultspec]..], 'varargs':bool,
'kwreq':[..], 'kwopt':[[name, defaultspec]..], 'varkw':bool}; functions are
exec-ed from generated source so that inspect sees real functions.
The binding oracle is inspect.signature(f).bind + apply_defaults: independent
of klepto's own signature()/_keygen.
"""
import inspect, functools
from hypothesis import strategies as st
from . import values as V
from .cachehist import sig_source, sig_names

REQ = ['a', 'b', 'c']
OPT = ['d', 'e', 'g']
KWREQ = ['k', 'm']
KWOPT = ['n', 'p']
# extra keyword names; the last ones coincide with names klepto uses internally for its own parameters (a cached function may use them too)
XKW = ['u', 'v', 'w', 'func', 'ignored', 'tol', 'key']

DEFAULTS = [['i', 0], ['i', 7], ['s', 'z'], ['n'], ['f', '0.5'], ['t', []]]


@st.composite
def signatures(draw, kwonly=True, varargs=True, varkw=True, min_params=0):
    nreq = draw(st.integers(0, 3))
    nopt = draw(st.integers(0, 3))
    sig = {'req': REQ[:nreq], 'opt': [[n, draw(st.sampled_from(DEFAULTS))] for n in OPT[:nopt]]}
    sig['varargs'] = bool(varargs and draw(st.integers(0, 2)) == 0)
    if kwonly and draw(st.integers(0, 2)) == 0:
        sig['kwreq'] = KWREQ[:draw(st.integers(0, 2))]
        sig['kwopt'] = [[n, draw(st.sampled_from(DEFAULTS))] for n in KWOPT[:draw(st.integers(0, 2))]]
    else:
        sig['kwreq'], sig['kwopt'] = [], []
    sig['varkw'] = bool(varkw and draw(st.integers(0, 2)) == 0)
    if min_params and len(sig['req']) + len(sig['opt']) + len(sig['kwreq']) + len(sig['kwopt']) < min_params \
            and not sig['varargs'] and not sig['varkw']:
        sig['req'] = REQ[:min_params]
    return sig


def has_kwonly(sig):
    return bool(sig.get('kwreq') or sig.get('kwopt'))


@st.composite
def bindings(draw, sig, vals, extra_pos=(0, 2), extra_kw=(0, 3), force_xpos=False):
    """a valid call of sig, as a binding (which parameters are supplied, with what)"""
    names = sig_names(sig)
    nreq = len(sig.get('req', []))
    nopt = len(sig.get('opt', []))
    want_xpos = sig.get('varargs') and (force_xpos or draw(st.booleans()))
    if want_xpos:
        k = nreq + nopt
    else:
        k = nreq + draw(st.integers(0, nopt))
    supplied = list(names[:k])
    # optionally supply a non-prefix subset of the optionals (by keyword)
    if not want_xpos and nopt and draw(st.integers(0, 3)) == 0:
        extra_opt = [n for n in names[nreq:] if n not in supplied and draw(st.booleans())]
        supplied += extra_opt
    b = {'named': [[n, draw(vals)] for n in supplied]}
    if want_xpos:
        b['xpos'] = draw(st.lists(vals, min_size=1, max_size=max(1, extra_pos[1])))
    b['kwonly'] = [[n, draw(vals)] for n in sig.get('kwreq', [])] + \
                  [[n, draw(vals)] for n, _ in sig.get('kwopt', []) if draw(st.booleans())]
    if sig.get('varkw'):
        kws = draw(st.lists(st.sampled_from(XKW), unique=True, min_size=extra_kw[0], max_size=extra_kw[1]))
        b['xkw'] = [[n, draw(vals)] for n in kws]
    return b


def spell_full(sig, binding, form, built=None):
    """one concrete spelling (args, kwds) of a binding; all spellings of one binding bind identically.
    built: optional dict spec-id -> object so that both spellings of a pair pass identical objects"""
    def B(spec):
        if built is None:
            return V.build(spec)
        key = id(spec)
        if key not in built:
            built[key] = V.build(spec)
        return built[key]
    names = sig_names(sig)
    given = dict((n, s) for n, s in binding.get('named', []))
    defaults = dict((n, s) for n, s in sig.get('opt', []))
    kwdefaults = dict((n, s) for n, s in sig.get('kwopt', []))
    kwonly = dict((n, s) for n, s in binding.get('kwonly', []))
    xpos = list(binding.get('xpos', []))
    xkw = list(binding.get('xkw', []))
    spell_defaults = bool((form // 64) % 2)
    omit_defaults = bool((form // 128) % 2)
    if spell_defaults:
        if not xpos:
            for n in names:
                if n not in given and n in defaults:
                    given[n] = defaults[n]
        # keyword-only defaults can be spelled out whatever is passed positionally (also next to extra positionals)
        for n in kwdefaults:
            if n not in kwonly:
                kwonly[n] = kwdefaults[n]
    if omit_defaults:
        if not xpos:
            for n in list(given):
                if n in defaults and given[n] == defaults[n]:
                    del given[n]
        for n in list(kwonly):
            if n in kwdefaults and kwonly[n] == kwdefaults[n]:
                del kwonly[n]
    prefix = 0
    for n in names:
        if n in given:
            prefix += 1
        else:
            break
    npos = prefix if xpos else prefix - (form % (prefix + 1))
    args = [B(given[n]) for n in names[:npos]] + [B(s) for s in xpos]
    kw_items = [(n, given[n]) for n in names[npos:] if n in given] + list(kwonly.items()) + [(n, s) for n, s in xkw]
    if kw_items:
        rot = (form // 7) % len(kw_items)
        kw_items = kw_items[rot:] + kw_items[:rot]
        if (form // 3) % 2:
            kw_items.reverse()
    return tuple(args), dict((n, B(s)) for n, s in kw_items)


def bound(fn, a, k):
    """python's own binding of the call, defaults applied; None if the call is invalid"""
    try:
        ba = inspect.signature(fn).bind(*a, **k)
    except TypeError:
        return None
    ba.apply_defaults()
    return dict(ba.arguments)


def bound_equal(x, y):
    if x is None or y is None:
        return False
    if x.keys() != y.keys():
        return False
    for n in x:
        if not veq(x[n], y[n]):
            return False
    return True


def veq(a, b):
    try:
        return bool(a == b)
    except Exception:
        return a is b


class Holder(object):
    """class carrying generated methods (C09/C11/C19 'method' kind)"""
    def __repr__(self):
        return 'Holder()'
    def __eq__(self, other):
        return isinstance(other, Holder)
    def __hash__(self):
        return 99


class Inst(object):
    """instances of a class whose method `f` is the generated function, installed for the duration of one case (C11 'attached' methods):
    distinguishable by every keymap (ident/size in repr, pickle, hash, ==), and FALSY when size == 0 like any empty container-like object"""
    def __init__(self, ident, size):
        self.ident, self.size = ident, size
    def __len__(self):
        return self.size
    def __repr__(self):
        return 'Inst(%d, %d)' % (self.ident, self.size)
    def __eq__(self, other):
        return isinstance(other, Inst) and (self.ident, self.size) == (other.ident, other.size)
    def __ne__(self, other):
        return not self.__eq__(other)
    def __hash__(self):
        return hash(('Inst', self.ident, self.size))


def make_plain(sig, body=None, name='f'):
    """exec a function of this signature; body(named, varargs, varkw) -> result"""
    defaults = dict((n, V.build(s)) for n, s in list(sig.get('opt', [])) + list(sig.get('kwopt', [])))
    ns = {'_D': defaults, '_body': body or (lambda named, va, vk: (named, va, tuple(sorted(vk.items()))))}
    exec(compile(sig_source(sig, name), '<generated %s>' % name, 'exec'), ns)
    return ns[name]


def with_self(sig):
    s = dict(sig)
    s['req'] = ['self'] + list(sig.get('req', []))
    return s
