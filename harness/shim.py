"""Python side of shim/vshim.c: arming, crash runs in forked children, event logs."""
import os, sys, ctypes, subprocess, select, signal
from . import core

VERIF = core.VERIF
SO = os.path.join(VERIF, '.build', 'vshim.so')
SRC = os.path.join(VERIF, 'shim', 'vshim.c')
_lib = None


def ensure_built():
    if not os.path.exists(SO) or os.path.getmtime(SO) < os.path.getmtime(SRC):
        r = subprocess.run([sys.executable, os.path.join(VERIF, 'tools', 'build_shim.py')], capture_output=True, text=True)
        if r.returncode != 0 or not os.path.exists(SO):
            raise core.HarnessError('cannot build vshim.so: %s' % (r.stdout + r.stderr)[-800:])
    return SO


def preloaded():
    return SO in os.environ.get('LD_PRELOAD', '').split(':')


def reexec_with_preload():
    """re-exec the current interpreter with the shim preloaded (once)"""
    ensure_built()
    if preloaded():
        return
    env = dict(os.environ)
    env['LD_PRELOAD'] = SO + ((':' + env['LD_PRELOAD']) if env.get('LD_PRELOAD') else '')
    os.execve(sys.executable, [sys.executable] + sys.argv, env)


def lib():
    global _lib
    if _lib is None:
        if not preloaded():
            raise core.HarnessError('vshim is not preloaded in this process')
        L = ctypes.CDLL(SO)
        L.vshim_arm.argtypes = [ctypes.c_char_p, ctypes.c_long, ctypes.c_int, ctypes.c_int]
        L.vshim_arm.restype = None
        L.vshim_disarm.restype = ctypes.c_long
        L.vshim_step.argtypes = [ctypes.c_char_p, ctypes.c_int, ctypes.c_int]
        L.vshim_step.restype = None
        L.vshim_count.restype = ctypes.c_long
        _lib = L
    return _lib


def run_armed(fn, root, kill_at=0, frac_mode=0, log=False, timeout=60):
    """fork; in the child arm the shim for paths under root, run fn(), disarm, report.
    Returns dict(status='done'|'killed'|'raised', events=N (done only), result=..., log=[(idx, kind, path)])
    kill_at=0: dry run (count).  The child _exit()s: nothing of the parent's state is flushed or finalised."""
    import dill
    L = lib()
    r, w = os.pipe()
    logr = logw = -1
    if log:
        logr, logw = os.pipe()
    sys.stdout.flush()
    sys.stderr.flush()
    pid = os.fork()
    if pid == 0:
        code = 0
        try:
            os.close(r)
            if log:
                os.close(logr)
            L.vshim_arm(os.fsencode(root), int(kill_at), int(frac_mode), logw)
            try:
                res = ('done', fn())
            except BaseException as e:
                import traceback
                res = ('raised', '%s: %r' % (type(e).__name__, e), traceback.format_exc()[-1200:])
            n = L.vshim_disarm()
            data = dill.dumps((res, n))
            with os.fdopen(w, 'wb') as f:
                f.write(data)
        except BaseException:
            code = 3
        finally:
            os._exit(code)
    os.close(w)
    if log:
        os.close(logw)
    chunks, logchunks = [], []
    fds = [r] + ([logr] if log else [])
    try:
        while fds:
            rr, _, _ = select.select(fds, [], [], timeout)
            if not rr:
                os.kill(pid, signal.SIGKILL)
                os.waitpid(pid, 0)
                raise core.HarnessError('armed child timed out')
            for fd in rr:
                b = os.read(fd, 65536)
                if not b:
                    fds.remove(fd)
                elif fd == r:
                    chunks.append(b)
                else:
                    logchunks.append(b)
    finally:
        os.close(r)
        if log:
            os.close(logr)
    _, status = os.waitpid(pid, 0)
    events = []
    if log:
        for line in b''.join(logchunks).decode('utf-8', 'replace').split('\n'):
            parts = line.split(' ', 2)
            if len(parts) == 3 and parts[0].isdigit() and int(parts[0]) == len(events) + 1:
                events.append((int(parts[0]), parts[1], parts[2]))
            elif events and line:
                # a path containing a newline: continuation of the previous record
                events[-1] = (events[-1][0], events[-1][1], events[-1][2] + '\n' + line)
    code = os.WEXITSTATUS(status) if os.WIFEXITED(status) else -1
    if code == 137:
        return {'status': 'killed', 'log': events}
    data = b''.join(chunks)
    if code != 0 or not data:
        raise core.HarnessError('armed child failed (exit %r, %d bytes)' % (code, len(data)))
    res, n = dill.loads(data)
    if res[0] == 'raised':
        return {'status': 'raised', 'error': res[1], 'trace': res[2], 'events': n, 'log': events}
    return {'status': 'done', 'result': res[1], 'events': n, 'log': events}
