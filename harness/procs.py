"""Process placements: forked children and worker interpreters with chosen environments."""
import os, sys, json, base64, subprocess, select, signal
from . import core

HERE = os.path.dirname(os.path.abspath(__file__))
VERIF = os.path.dirname(HERE)


class Worker(object):
    """a separate interpreter fed requests over pipes.
    launch: 'script' (python worker.py: sys.path[0] is the script directory, '' is NOT on sys.path)
            'dashc'  (python -c ...: sys.path[0] == '', like an interactive session)
    bytecode: True = python's default (PYTHONDONTWRITEBYTECODE removed), False = disabled"""

    def __init__(self, hashseed='0', bytecode=True, launch='script', cwd=None):
        env = dict(os.environ)
        env['PYTHONHASHSEED'] = str(hashseed)
        env['VERIF_HOME'] = VERIF
        env.pop('PYTHONPATH', None)
        if bytecode:
            env.pop('PYTHONDONTWRITEBYTECODE', None)
        else:
            env['PYTHONDONTWRITEBYTECODE'] = '1'
        wp = os.path.join(HERE, 'worker.py')
        if launch == 'script':
            cmd = [sys.executable, wp]
        else:
            # like an interactive / -c session (sys.path[0] == ''), and its __main__ is a SHIFTED COPY of the worker source:
            # other path, other line numbers - incidental properties of the main script that keys must not depend on
            shifted = os.path.join(VERIF, '.work', 'worker_shifted_%d.py' % os.getpid())
            os.makedirs(os.path.dirname(shifted), exist_ok=True)
            with open(wp) as f:
                src = f.read()
            with open(shifted, 'w') as f:
                f.write('# shifted copy\n' * 7 + src)
            self._shifted = shifted
            cmd = [sys.executable, '-c', 'import runpy; runpy.run_path(%r, run_name="__main__")' % shifted]
        self.desc = dict(hashseed=str(hashseed), bytecode=bytecode, launch=launch)
        self.p = subprocess.Popen(cmd, stdin=subprocess.PIPE, stdout=subprocess.PIPE, stderr=subprocess.DEVNULL, env=env, cwd=cwd or '/',
                                  universal_newlines=True, bufsize=1)

    def request(self, req, timeout=60):
        import dill
        try:
            self.p.stdin.write(json.dumps(req) + '\n')
            self.p.stdin.flush()
        except (BrokenPipeError, OSError) as e:
            raise core.HarnessError('worker died: %r' % e)
        r, _, _ = select.select([self.p.stdout], [], [], timeout)
        if not r:
            self.kill()
            raise core.HarnessError('worker timed out on %r' % (req.get('cmd'),))
        line = self.p.stdout.readline()
        if not line:
            raise core.HarnessError('worker closed its pipe (exit %r) on %r' % (self.p.poll(), req.get('cmd')))
        res = dill.loads(base64.b64decode(json.loads(line)['r']))
        if isinstance(res, tuple) and res and res[0] == 'worker-exc':
            raise core.HarnessError('worker raised outside the code under test: %s' % res[1])
        return res

    def close(self):
        try:
            if self.p.poll() is None:
                try:
                    self.p.stdin.write(json.dumps({'cmd': 'quit'}) + '\n')
                    self.p.stdin.flush()
                    self.p.wait(timeout=5)
                except Exception:
                    pass
        finally:
            self.kill()

    def kill(self):
        sh = getattr(self, '_shifted', None)
        if sh:
            try:
                os.remove(sh)
            except OSError:
                pass
        if self.p.poll() is None:
            self.p.kill()
            try:
                self.p.wait(timeout=5)
            except Exception:
                pass
        for f in (self.p.stdin, self.p.stdout):
            try:
                f.close()
            except Exception:
                pass


def in_fork(fn, timeout=60):
    """run fn() in a forked child that then _exit()s (no atexit, no finally in the parent's frames);
    returns fn's result (sent back with dill).  The child is a real separate process: own fds, own sqlite connection."""
    import dill
    r, w = os.pipe()
    sys.stdout.flush()
    sys.stderr.flush()
    pid = os.fork()
    if pid == 0:
        code = 0
        try:
            os.close(r)
            try:
                res = ('ok', fn())
            except BaseException as e:
                import traceback
                res = ('child-exc', '%r\n%s' % (e, traceback.format_exc()))
            data = dill.dumps(res)
            with os.fdopen(w, 'wb') as f:
                f.write(data)
        except BaseException:
            code = 3
        finally:
            os._exit(code)
    os.close(w)
    chunks = []
    try:
        with os.fdopen(r, 'rb') as f:
            while True:
                rr, _, _ = select.select([f], [], [], timeout)
                if not rr:
                    os.kill(pid, signal.SIGKILL)
                    os.waitpid(pid, 0)
                    raise core.HarnessError('forked child timed out')
                b = f.read(65536)
                if not b:
                    break
                chunks.append(b)
    finally:
        try:
            os.waitpid(pid, 0)
        except ChildProcessError:
            pass
    data = b''.join(chunks)
    if not data:
        raise core.HarnessError('forked child died without a result')
    res = dill.loads(data)
    if res[0] == 'child-exc':
        raise core.HarnessError('forked child raised in the harness: %s' % res[1])
    return res[1]
