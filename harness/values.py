"""JSON-able value specs <-> Python values, and Hypothesis strategies for them.

A spec is a small list: ['i', 3] ['f', '2.5'] ['s', 'ab'] ['b', '6162'] ['n']
['B', true] ['t', [specs]] ['l', [specs]] ['S', [specs]] ['F', [specs]]
['d', [[kspec, vspec], ...]].  Cases therefore serialise to JSON as they are
and a replay file needs no Hypothesis.
"""
from hypothesis import strategies as st

HURT = ['a', 'b', '1', '_', '-', '/', '.', "'", '"', '\\', '\n', 'é', '☃', ' ', ',', '(', ')']


def build(spec):
    t = spec[0]
    if t == 'i':
        return int(spec[1])
    if t == 'f':
        return float(spec[1])
    if t == 's':
        return spec[1]
    if t == 'b':
        return bytes.fromhex(spec[1])
    if t == 'n':
        return None
    if t == 'B':
        return bool(spec[1])
    if t == 't':
        return tuple(build(x) for x in spec[1])
    if t == 'l':
        return [build(x) for x in spec[1]]
    if t == 'S':
        return set(build(x) for x in spec[1])
    if t == 'F':
        return frozenset(build(x) for x in spec[1])
    if t == 'd':
        return dict((build(k), build(v)) for k, v in spec[1])
    if t == 'D':
        # a dict SUBCLASS (spec[1]: 'ordered' | 'default' | 'counter'), items as for 'd'
        import collections
        items = [(build(k), build(v)) for k, v in spec[2]]
        if spec[1] == 'ordered':
            return collections.OrderedDict(items)
        if spec[1] == 'default':
            d = collections.defaultdict(int)
            d.update(items)
            return d
        c = collections.Counter()
        c.update(dict(items))
        return c
    if t == 'H':
        return hostile(spec[1])
    if t == 'R':
        return Record(spec[1])
    if t == 'c':
        return Celsius(float(spec[1]))
    if t == 'Z':
        return iter([build(x) for x in spec[1]])           # a one-shot iterator: looking at its items uses them up
    if t == 'T':
        import builtins
        return getattr(builtins, spec[1])           # a class object (list, dict, str ...) passed as an argument (a factory / a kind)
    if t == 'Y':
        return Sized(spec[1])
    if t == 'N':
        return Pair(*[build(x) for x in spec[1]])
    if t == 'G':
        return range(spec[1])
    if t == 'M':
        import sys
        cls = getattr(sys.modules.get('__main__'), 'MainPoint', None) or _MainPointStandIn
        return cls(build(spec[1]))
    raise ValueError('bad spec %r' % (spec,))


class _MainPointStandIn(object):
    """used only where the process has no MainPoint in its __main__ (the harness itself, for classification)"""
    def __init__(self, x):
        self.x = x
    def __eq__(self, other):
        return type(other).__name__ in ('MainPoint', '_MainPointStandIn') and other.x == self.x
    def __hash__(self):
        return hash(('MainPoint', self.x))
    def __repr__(self):
        return 'MainPoint(%r)' % (self.x,)


class BadHash(object):
    def __hash__(self):
        raise TypeError('unhashable on purpose')


class BadRepr(object):
    def __repr__(self):
        raise ValueError('repr fails on purpose')
    __str__ = __repr__


class BadEq(object):
    def __hash__(self):
        return 7
    def __eq__(self, other):
        raise RuntimeError('eq fails on purpose')
    def __repr__(self):
        return 'BadEq()'


class BadReduce(object):
    def __reduce_ex__(self, proto):
        raise TypeError('cannot pickle on purpose')
    def __repr__(self):
        return 'BadReduce()'
    def __eq__(self, other):
        return isinstance(other, BadReduce)
    def __hash__(self):
        return 11


class BadHashKeyError(object):
    def __hash__(self):
        raise KeyError('hash looks something up and fails')


class BadReprKeyError(object):
    def __repr__(self):
        raise KeyError('repr looks something up and fails')
    __str__ = __repr__


class BadReduceKeyError(object):
    def __reduce_ex__(self, proto):
        raise KeyError('reduce looks something up and fails')
    def __repr__(self):
        return 'BadReduceKeyError()'
    def __eq__(self, other):
        return isinstance(other, BadReduceKeyError)
    def __hash__(self):
        return 13


class BadHashRuntime(object):
    """unhashable, but says so with another exception than TypeError (as a writable memoryview does with ValueError)"""
    def __hash__(self):
        raise RuntimeError('detached object has no stable identity to hash')


import collections as _collections
Pair = _collections.namedtuple('Pair', 'x y')       # a tuple subclass that cannot be built from ONE sequence argument


class Celsius(float):
    """a float SUBCLASS (as numpy.float64 is): rounded like any float"""
    def __repr__(self):
        return 'Celsius(%s)' % float.__repr__(self)


class Sized(object):
    """has a length but cannot be iterated"""
    def __init__(self, n):
        self.n = n

    def __len__(self):
        return self.n

    def __repr__(self):
        return 'Sized(%d)' % self.n

    def __eq__(self, other):
        return isinstance(other, Sized) and other.n == self.n

    def __ne__(self, other):
        return not self.__eq__(other)

    def __hash__(self):
        return hash(('Sized', self.n))


class Record(object):
    """a dict-backed record: unknown attribute names are looked up in the field dict, so `record.anything` raises KeyError (not AttributeError).
    An ordinary, hashable, printable, picklable argument value - code that probes its attributes must be prepared for that"""
    def __init__(self, x):
        self._fields = {'x': x}

    def __getattr__(self, name):
        if name.startswith('__') or name == '_fields':
            raise AttributeError(name)
        return self._fields[name]

    def __repr__(self):
        return 'Record(%r)' % (self._fields['x'],)

    def __eq__(self, other):
        return isinstance(other, Record) and other._fields == self._fields

    def __ne__(self, other):
        return not self.__eq__(other)

    def __hash__(self):
        return hash(('Record', self._fields['x']))

    def __reduce__(self):
        return (Record, (self._fields['x'],))


def hostile(kind):
    if kind == 'badhashrt':
        return BadHashRuntime()
    if kind == 'memview':
        return memoryview(bytearray(b'ab'))       # hash() raises ValueError: cannot hash writable memoryview object
    if kind == 'gen':
        return (i for i in range(2))
    if kind == 'lam':
        return lambda: 1
    if kind == 'badhash':
        return BadHash()
    if kind == 'badrepr':
        return BadRepr()
    if kind == 'badeq':
        return BadEq()
    if kind == 'badreduce':
        return BadReduce()
    if kind == 'badhashkey':
        return BadHashKeyError()
    if kind == 'badreprkey':
        return BadReprKeyError()
    if kind == 'badreducekey':
        return BadReduceKeyError()
    raise ValueError(kind)


HOSTILE_KINDS = ['gen', 'lam', 'badhashrt', 'memview', 'badhash', 'badrepr', 'badreduce', 'badhashkey', 'badreprkey', 'badreducekey']   # 'badeq' (raising __eq__) is outside the statement: neither unhashable nor unencodable


def has_float(spec):
    t = spec[0]
    if t == 'f':
        return True
    if t in 'tlSF':
        return any(has_float(x) for x in spec[1])
    if t == 'd':
        return any(has_float(k) or has_float(v) for k, v in spec[1])
    return False


def depth(spec):
    t = spec[0]
    if t in 'tlSF':
        return 1 + max([depth(x) for x in spec[1]] or [0])
    if t == 'd':
        return 1 + max([max(depth(k), depth(v)) for k, v in spec[1]] or [0])
    return 0


# ---- canonical form used by generated functions (equality-respecting) -------

def canon(v):
    """a representation such that a == b (element-wise, Python semantics)
    implies canon(a) == canon(b); used so that generated functions are
    equality-respecting (1, 1.0 and True legitimately share raw keys)."""
    if isinstance(v, bool):
        return int(v)
    if isinstance(v, int):
        return v
    if isinstance(v, float):
        if v != v:
            return ('nan',)
        if v in (float('inf'), float('-inf')):
            return ('inf', v > 0)
        if v == int(v):
            return int(v)
        return ('f', repr(v))
    if v is None:
        return ('none',)
    if isinstance(v, str):
        return ('s', v)
    if isinstance(v, bytes):
        return ('b', v.hex())
    if isinstance(v, tuple):
        return ('t',) + tuple(canon(x) for x in v)
    if isinstance(v, list):
        return ('l',) + tuple(canon(x) for x in v)
    if isinstance(v, (set, frozenset)):
        return ('S',) + tuple(sorted((canon(x) for x in v), key=repr))
    if isinstance(v, dict):
        return ('d',) + tuple(sorted(((canon(k), canon(x)) for k, x in v.items()), key=repr))
    if isinstance(v, Record):
        return ('R', canon(v._fields['x']))
    return ('o', type(v).__name__)


# ---- strategies ------------------------------------------------------------

def ints(small=True):
    base = st.integers(-3, 6)
    if small:
        return base.map(lambda i: ['i', i])
    big = st.sampled_from([2**63 - 1, -2**63, 2**63, 2**80, -2**80, 10**6, 255, 256])
    return st.one_of(base, base, big).map(lambda i: ['i', i])


FLOATS = [0.5, 2.5, 0.125, 2.675, 1.0, 0.0, -0.0, -1.5, 3.14159, 1e-3, 1234.5678, 1e10, 0.1, 0.30000000000000004]


def floats(special=False):
    pool = list(FLOATS)
    if special:
        pool += [float('inf'), float('-inf'), 1e308, 5e-324]
    return st.one_of(st.sampled_from(pool),
                     st.floats(min_value=-1e6, max_value=1e6, allow_nan=False, allow_infinity=False, width=64)
                     ).map(lambda x: ['f', repr(float(x))])


def strs(hurt=True, max_size=4):
    alpha = HURT if hurt else ['a', 'b', 'c', 'x', '1', '_']
    return st.lists(st.sampled_from(alpha), max_size=max_size).map(lambda cs: ['s', ''.join(cs)])


def bytess(max_size=3):
    return st.binary(max_size=max_size).map(lambda b: ['b', b.hex()])


NONE = st.just(['n'])
BOOLS = st.booleans().map(lambda b: ['B', b])


def scalars(floats_ok=True, special_floats=False, hurt=True, big_ints=False, bytes_ok=True):
    alts = [ints(not big_ints), ints(not big_ints), strs(hurt), NONE, BOOLS]
    if floats_ok:
        alts.append(floats(special_floats))
    if bytes_ok:
        alts.append(bytess())
    return st.one_of(*alts)


def hashables(max_depth=2, **kw):
    """hashable values: scalars, tuples and frozensets of hashables"""
    base = scalars(**kw)
    if max_depth <= 0:
        return base
    return st.recursive(
        base,
        lambda ch: st.one_of(
            st.lists(ch, max_size=3).map(lambda xs: ['t', xs]),
            st.lists(ch, max_size=2).map(lambda xs: ['F', xs])),
        max_leaves=5)


def anyvalues(max_leaves=8, str_dict_keys_only=False, **kw):
    """arbitrary nested values incl. unhashable containers"""
    base = scalars(**kw)
    hk = st.one_of(strs(False), ints()) if not str_dict_keys_only else strs(False)

    def ext(ch):
        return st.one_of(
            st.lists(ch, max_size=3).map(lambda xs: ['t', xs]),
            st.lists(ch, max_size=3).map(lambda xs: ['l', xs]),
            st.lists(scalars(**kw), max_size=3).map(lambda xs: ['S', xs]),
            st.lists(st.tuples(hk, ch), max_size=3).map(lambda kvs: ['d', [list(kv) for kv in kvs]]))
    return st.recursive(base, ext, max_leaves=max_leaves)


def twins():
    """equal-but-differently-typed values"""
    return st.sampled_from([
        [['i', 1], ['f', '1.0'], ['B', True]],
        [['i', 0], ['f', '0.0'], ['B', False], ['f', '-0.0']],
        [['i', 2], ['f', '2.0']],
    ])
