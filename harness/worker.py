"""Worker interpreter for the cross-process checks (C04, C17).

Started by harness.procs.Worker with a chosen environment (hash seed, bytecode on/off, launch style, cwd).
Protocol: one JSON object per line on stdin; one JSON object per line on stdout ({'r': base64(dill(result))}).
All archive handling goes through harness.arch, i.e. the same code the in-process placements use.
"""
import sys, os, json, base64


class MainPoint(object):
    """a user class defined in the session's main script (C17: keys of calls taking such objects must not depend on incidental
    properties of __main__ such as line numbers or the script path; one worker runs a shifted copy of this file)"""

    def __init__(self, x):
        self.x = x

    def __eq__(self, other):
        return type(other).__name__ == 'MainPoint' and other.x == self.x

    def __hash__(self):
        return hash(('MainPoint', self.x))

    def __repr__(self):
        return 'MainPoint(%r)' % (self.x,)


def main():
    verif = os.environ['VERIF_HOME']
    if verif not in sys.path:
        sys.path.append(verif)          # appended, never first: '' / script dir semantics of the launch style stay as they are
    from harness import core, arch as A, values as V
    core.ensure_klepto()
    import dill
    handles = {}
    out = sys.stdout
    sys.stdout = sys.stderr            # anything printed by the code under test must not corrupt the protocol
    for line in sys.stdin:
        line = line.strip()
        if not line:
            continue
        req = json.loads(line)
        try:
            res = handle(req, handles, A, V, dill)
        except BaseException as e:
            import traceback
            res = ('worker-exc', '%r\n%s' % (e, traceback.format_exc()))
        out.write(json.dumps({'r': base64.b64encode(dill.dumps(res)).decode()}) + '\n')
        out.flush()
        if req.get('cmd') == 'quit':
            break


def handle(req, handles, A, V, dill):
    cmd = req['cmd']
    if cmd == 'quit':
        return ('ok', None)
    if cmd == 'reset':
        for a in handles.values():
            conn = getattr(a, '_conn', None)
            if conn is not None:
                try:
                    conn.close()
                except Exception:
                    pass
        handles.clear()
        return ('ok', None)
    if cmd == 'env':
        return ('ok', {'hashseed': os.environ.get('PYTHONHASHSEED'), 'dont_write_bytecode': sys.dont_write_bytecode, 'path0': sys.path[0] if sys.path else None,
                       'cwd': os.getcwd(), 'hash_a': hash('a')})
    if cmd in ('apply', 'read'):
        cfg, root, name = req['cfg'], req['root'], req['name']
        hk = (cfg, root, name)
        if req.get('handle') == 'kept' and hk in handles:
            a = handles[hk]
        else:
            a = A.open_archive(cfg, root, name, cached=False)
            if req.get('handle') == 'kept':
                handles[hk] = a
        if cmd == 'apply':
            keys = [A.build_key(k) for k in req['keys']]
            vals = [V.build(v) for v in req['vals']]
            for op in req['ops']:
                A.apply_write(a, op, keys, vals)
            return ('ok', None)
        return A.observe(a, req.get('view', 'items'), [A.build_key(k) for k in req.get('keys', [])])
    if cmd == 'call':
        # generic hook used by C04/C17: run harness function <mod>.<fn>(**args)
        import importlib
        mod = importlib.import_module(req['mod'])
        return ('ok', getattr(mod, req['fn'])(**req['args']))
    raise ValueError(cmd)


if __name__ == '__main__':
    main()
