"""Archive configurations, key/value domains and the dict reference model shared by the
archive-group checks (C03 C04 C08 C13 C14).

Nothing in the model calls klepto.  Key and value domains are per codec and are the ones the
backend documents / its callers use ("keys the backend accepts ... values it can encode").
"""
import os, sys, hashlib
from hypothesis import strategies as st
from . import values as V

# config -> attributes
CONFIGS = {
    'dict':      dict(persistent=False, codec='mem'),
    'null':      dict(persistent=False, codec='mem'),
    'file_pkl':  dict(persistent=True, codec='pickle'),
    'file_json': dict(persistent=True, codec='json'),
    'file_src':  dict(persistent=True, codec='src'),
    'dir_dill':  dict(persistent=True, codec='pickle', dir=True),
    'dir_fast':  dict(persistent=True, codec='pickle', dir=True),
    'dir_z':     dict(persistent=True, codec='pickle', dir=True),
    'dir_mm':    dict(persistent=True, codec='pickle', dir=True),
    'dir_json':  dict(persistent=True, codec='json', dir=True),
    'dir_src':   dict(persistent=True, codec='src', dir=True),
    'sql_mem':   dict(persistent=False, codec='sql'),
    'sql_file':  dict(persistent=True, codec='sql'),
}
ALL = list(CONFIGS)
PERSISTENT = [c for c in ALL if CONFIGS[c]['persistent']]


def is_dir(cfg):
    return bool(CONFIGS[cfg].get('dir'))


def codec(cfg):
    return CONFIGS[cfg]['codec']


def location(cfg, root, name):
    """where archive <name> of this config lives under root (None for in-memory)"""
    if cfg in ('dict', 'null', 'sql_mem'):
        return None
    if cfg == 'file_pkl':
        return os.path.join(root, name + '.pkl')
    if cfg == 'file_json':
        return os.path.join(root, name + '.json')
    if cfg == 'file_src':
        return os.path.join(root, name + '_src.py')
    if is_dir(cfg):
        return os.path.join(root, name + '_' + cfg[4:])
    if cfg == 'sql_file':
        return os.path.join(root, 'db.sqlite')
    raise ValueError(cfg)


def open_archive(cfg, root, name, cached=False, seed_dict=None):
    """open (create or re-open) archive <name> the way a user would: klepto.archives.X(name, dict, cached, **settings)"""
    import klepto.archives as ka
    kw = {}
    if seed_dict is not None:
        kw['dict'] = seed_dict
    loc = location(cfg, root, name)
    if cfg == 'dict':
        return ka.dict_archive(name, cached=cached, **kw)
    if cfg == 'null':
        return ka.null_archive(name, cached=cached, **kw)
    if cfg == 'file_pkl':
        return ka.file_archive(loc, cached=cached, **kw)
    if cfg == 'file_json':
        return ka.file_archive(loc, cached=cached, protocol='json', **kw)
    if cfg == 'file_src':
        return ka.file_archive(loc, cached=cached, serialized=False, **kw)
    if cfg == 'dir_dill':
        return ka.dir_archive(loc, cached=cached, **kw)
    if cfg == 'dir_fast':
        return ka.dir_archive(loc, cached=cached, fast=True, **kw)
    if cfg == 'dir_z':
        return ka.dir_archive(loc, cached=cached, compression=3, **kw)
    if cfg == 'dir_mm':
        return ka.dir_archive(loc, cached=cached, memmode='r+', **kw)
    if cfg == 'dir_json':
        return ka.dir_archive(loc, cached=cached, protocol='json', **kw)
    if cfg == 'dir_src':
        return ka.dir_archive(loc, cached=cached, serialized=False, **kw)
    if cfg == 'sql_mem':
        return ka.sqltable_archive(None, cached=cached, **kw)
    if cfg == 'sql_file':
        return ka.sqltable_archive('sqlite:///%s?table=%s' % (loc, name), cached=cached, **kw)
    raise ValueError(cfg)


def open_lowlevel(cfg, root, name):
    """construct the archive object itself (klepto._archives class), without the seeding update({}) that klepto.archives.X(...) adds;
    file configurations only (C14: keeps the open finding D12f - the update({}) re-save - out of the main pass)"""
    import klepto._archives as ka
    loc = location(cfg, root, name)
    if cfg == 'file_pkl':
        return ka.file_archive(loc)
    if cfg == 'file_json':
        return ka.file_archive(loc, protocol='json')
    if cfg == 'file_src':
        return ka.file_archive(loc, serialized=False)
    raise ValueError(cfg)


def copy_name(cfg, root, name):
    """the argument of copy(name) that creates archive <name> of the same kind"""
    if cfg in ('dict', 'null'):
        return name
    if cfg == 'sql_mem':
        return 'sqlite:///:memory:?table=%s' % name
    if cfg == 'sql_file':
        return 'sqlite:///%s?table=%s' % (location(cfg, root, name), name)
    return location(cfg, root, name)


# ---------------------------------------------------------------------------
# type-exact equality

_MAINPOINT = ('MainPoint', '_MainPointStandIn')


def exact(a, b):
    """deep, type-exact equality (1, 1.0 and True differ; so do (1,) and [1])"""
    if type(a).__name__ in _MAINPOINT and type(b).__name__ in _MAINPOINT:
        # an instance of the class a worker interpreter defines in its __main__ (rebuilt by value in whoever reads it) / the harness's stand-in
        return exact(a.x, b.x)
    if type(a) is not type(b):
        return False
    if isinstance(a, (list, tuple)):
        return len(a) == len(b) and all(exact(x, y) for x, y in zip(a, b))
    if isinstance(a, dict):
        if len(a) != len(b):
            return False
        for k, v in a.items():
            hit = [kk for kk in b if type(kk) is type(k) and kk == k]
            if not hit or not exact(v, b[hit[0]]):
                return False
        return True
    if isinstance(a, (set, frozenset)):
        return a == b and sorted(type(x).__name__ + repr(x) for x in a) == sorted(type(x).__name__ + repr(x) for x in b)
    if isinstance(a, float):
        return (a == b and str(a) == str(b)) or (a != a and b != b)
    return a == b


def same_multiset(xs, ys):
    ys = list(ys)
    for x in xs:
        for i, y in enumerate(ys):
            if exact(x, y):
                del ys[i]
                break
        else:
            return False
    return not ys


# ---------------------------------------------------------------------------
# keys

CONFUSABLE = ['_', ':', '|', '?', '*', '<', '>', '"', '\\', ' ', '.', ',', "'", '=', '+', '-', '/']
KEYMAPS = ['raw', 'rawkw', 'str', 'repr', 'md5', 'sha1', 'hash', 'pik', 'dillpik', 'strnf']


def apply_keymap(name, args):
    """key as klepto's own keymaps produce it for the call f(*args)"""
    import klepto.keymaps as km
    if name == 'raw':
        return km.keymap()(*args)
    if name == 'rawkw':
        return km.keymap()(*args[:1], **dict(('k%d' % i, a) for i, a in enumerate(args[1:])))
    if name == 'str':
        return km.stringmap()(*args)
    if name == 'strnf':
        return km.stringmap(flat=False)(*args)
    if name == 'repr':
        return km.stringmap(encoding='repr')(*args)
    if name == 'md5':
        return km.hashmap(algorithm='md5')(*args)
    if name == 'sha1':
        return km.hashmap(algorithm='sha1')(*args)
    if name == 'hash':
        return km.hashmap()(*args)
    if name == 'pik':
        return km.picklemap()(*args)
    if name == 'dillpik':
        return km.picklemap(serializer='dill')(*args)
    raise ValueError(name)


def build_key(spec):
    if spec[0] == 'K':
        return apply_keymap(spec[1], tuple(V.build(a) for a in spec[2]))
    return V.build(spec)


def key_ok(cfg, k):
    """is k in the key domain of this backend (what it documents / its callers hand it)"""
    c = codec(cfg)
    if c == 'json':
        ok = isinstance(k, str)
    elif c == 'sql':
        ok = isinstance(k, (str, bytes)) or (isinstance(k, int) and not isinstance(k, bool) and -2**63 <= k < 2**63)
    elif c == 'src':
        ok = src_ok(k) and not isinstance(k, (list, dict, float, type(None), bool))
    else:
        ok = True
    if not ok:
        return False
    if is_dir(cfg):
        name = fname(k)[1]
        if isinstance(name, str):
            if '/' in name or '\x00' in name or len(name.encode('utf-8', 'surrogatepass')) > 253 or name in ('.', '..'):
                return False
            if name.startswith('.I_'):
                return False
            if cfg == 'dir_src' and not ('K_' + name).isidentifier():
                return False       # entries are read back with "from K_<name> import memo"
    return True


def fname(k):
    """independent replica of the documented key -> directory-name mapping (used only to keep the pool alias-free
    and to build aliasing probes; never as an oracle)"""
    if isinstance(k, bytes) and k[:1] == b'\x80' and k[-1:] == b'.':
        return ('md5', k)
    return ('str', str(k).replace('-', '_'))


def src_ok(v):
    """values the source-text codec documents: objects whose repr is importable python (ascii)"""
    if v is None or isinstance(v, (bool, int)):
        return True
    if isinstance(v, float):
        return v == v and v not in (float('inf'), float('-inf'))
    if isinstance(v, str):
        return all(ord(ch) < 128 for ch in v)
    if isinstance(v, bytes):
        return True
    if isinstance(v, (list, tuple)):
        return all(src_ok(x) for x in v)
    if isinstance(v, dict):
        return all(src_ok(k) and src_ok(x) for k, x in v.items())
    return False


def simple_keys(cfg):
    c = codec(cfg)
    if c == 'json':
        return V.strs(True)
    if cfg == 'dir_src':
        return st.one_of(V.strs(False), st.integers(0, 6).map(lambda i: ['i', i]))
    if c == 'sql':
        return st.one_of(V.strs(True), V.ints(), st.sampled_from([2**63 - 1, -2**63, 10**6]).map(lambda i: ['i', i]), V.bytess())
    if c == 'src':
        return st.one_of(V.strs(False), V.ints(), V.bytess(), st.lists(st.one_of(V.ints(), V.strs(False)), max_size=2).map(lambda xs: ['t', xs]))
    return st.one_of(V.strs(True), V.ints(False), V.bytess(), st.lists(st.one_of(V.ints(), V.strs(False)), max_size=2).map(lambda xs: ['t', xs]),
                     V.floats())


def keymap_keys(cfg, stable_only=False):
    c = codec(cfg)
    if c == 'json':
        names = ['str', 'repr', 'md5', 'sha1', 'strnf']
    elif cfg == 'dir_src':
        names = ['md5', 'sha1', 'hash']
    elif c == 'sql':
        names = ['str', 'repr', 'md5', 'hash', 'pik', 'dillpik', 'strnf']
    else:
        names = KEYMAPS
    if stable_only:      # hashmap(algorithm=None) is python's hash(): differs between interpreters with different hash seeds
        names = [n for n in names if n != 'hash']
    arg = st.one_of(V.ints(), V.strs(False), V.floats())
    return st.tuples(st.sampled_from(names), st.lists(arg, min_size=1, max_size=2)).map(lambda t: ['K', t[0], t[1]])


@st.composite
def key_pools(draw, cfg, n=(3, 6), stable_only=False):
    """an alias-free pool of distinct keys in the backend's key domain (specs)"""
    want = draw(st.integers(*n))
    pool, built = [], []
    tries = 0
    excluded = 0
    while len(pool) < want and tries < 40:
        tries += 1
        spec = draw(st.one_of(simple_keys(cfg), keymap_keys(cfg, stable_only)))
        k = build_key(spec)
        if not key_ok(cfg, k):
            excluded += 1
            continue
        if any(k == b for b in built):       # dict-equal (1 / 1.0 / True): one dict key
            continue
        if is_dir(cfg) and any(fname(k) == fname(b) for b in built):
            excluded += 1
            continue
        pool.append(spec)
        built.append(k)
    # siblings: two string keys that differ ONLY in one 'confusable' character (x:y / x|y / x y ...) - the shape that exposes a lossy
    # key -> storage-name mapping. '-' / '_' and '/' are excluded for directory archives (open findings D8a, D8b).
    if draw(st.integers(0, 9)) < 4:
        strs = [i for i, sp in enumerate(pool) if sp[0] == 's']
        base = pool[strs[draw(st.integers(0, len(strs) - 1))]][1] if strs else 'k'
        chars = [c for c in CONFUSABLE if not (is_dir(cfg) and c in ('-', '/'))]
        if cfg == 'dir_src':
            chars = ['_', 'x', '0']
        if codec(cfg) == 'src':
            chars = [c for c in chars if ord(c) < 128]
        pos = draw(st.integers(0, len(base)))
        c1 = draw(st.sampled_from(chars))
        c2 = draw(st.sampled_from([c for c in chars if c != c1]))
        for c in (c1, c2):
            spec = ['s', base[:pos] + c + base[pos:]]
            k = build_key(spec)
            if key_ok(cfg, k) and not any(k == b for b in built) and not (is_dir(cfg) and any(fname(k) == fname(b) for b in built)):
                pool.append(spec)
                built.append(k)
    if is_dir(cfg) and draw(st.integers(0, 2)) == 0:
        # keys whose TEXT contains what the directory layout uses itself: the entry prefix 'K_' inside the key, glob / pattern characters, and the
        # same inside a key that needs an input file
        specials = [['s', 'TASK_7'], ['s', 'K_1'], ['s', 'xK_K_y'], ['s', 'OK_'], ['s', 'a[b]c'], ['s', 'x[-1]'], ['t', [['s', 'row[0]'], ['i', 3]]], ['s', 'q*'], ['s', 'w?'],
                    ['t', [['s', 'K_k'], ['i', 1]]]]
        for spec in draw(st.lists(st.sampled_from(specials), min_size=1, max_size=2, unique_by=repr)):
            k = build_key(spec)
            if key_ok(cfg, k) and not any(k == b for b in built) and not any(fname(k) == fname(b) for b in built):
                pool.append(spec)
                built.append(k)
    if is_dir(cfg) and draw(st.integers(0, 5)) == 0:
        # a key whose entry name is at (or just under) the file-name length limit: 'K_' + key fits in 255 bytes, anything longer derived from it does not
        spec = ['s', 'k' * draw(st.sampled_from([253, 252, 251, 200]))]
        if key_ok(cfg, build_key(spec)):
            pool.append(spec)
    if not pool:
        pool = [['s', 'a']]
    return pool


# ---------------------------------------------------------------------------
# values

def values(cfg):
    c = codec(cfg)
    if c == 'json':
        base = st.one_of(V.ints(), V.strs(True), V.NONE, V.BOOLS, V.floats())
        return st.recursive(base, lambda ch: st.one_of(
            st.lists(ch, max_size=3).map(lambda xs: ['l', xs]),
            st.lists(st.tuples(V.strs(False), ch), max_size=2).map(lambda kvs: ['d', [list(kv) for kv in kvs]])), max_leaves=5)
    if c == 'sql':
        return st.one_of(V.ints(), st.sampled_from([2**63 - 1, -2**63, 10**6]).map(lambda i: ['i', i]), V.strs(True), V.NONE, V.floats(True), V.bytess())
    if c == 'src':
        base = st.one_of(V.ints(), V.strs(False), V.NONE, V.BOOLS, V.floats(), V.bytess())
        return st.recursive(base, lambda ch: st.one_of(
            st.lists(ch, max_size=3).map(lambda xs: ['l', xs]),
            st.lists(ch, max_size=3).map(lambda xs: ['t', xs]),
            st.lists(st.tuples(V.strs(False), ch), max_size=2).map(lambda kvs: ['d', [list(kv) for kv in kvs]])), max_leaves=5)
    return V.anyvalues(max_leaves=6, special_floats=True, big_ints=True)


# 'src' has no poison in the main pass: the source-text codec accepts anything (open finding D9c, probed separately)
POISON = {'pickle': ['gen'], 'json': ['set', 'bytes'], 'src': [], 'sql': ['tuple', 'list'], 'mem': []}


def poison(kind):
    if kind == 'gen':
        return (i for i in range(2))
    if kind == 'set':
        return {1, 2}
    if kind == 'bytes':
        return b'ab'
    if kind == 'tuple':
        return (1, 2)
    if kind == 'list':
        return [1]
    raise ValueError(kind)


# ---------------------------------------------------------------------------
# observation

def contents(a):
    """dict(a.items()) of an archive (or cache) through its public mapping interface"""
    return dict(a.items())


def describe(d):
    try:
        return '{' + ', '.join(sorted('%r: %r' % kv for kv in d.items())) + '}'
    except Exception:
        return repr(d)


# ---------------------------------------------------------------------------
# write histories (C04, C13, C14): ops are JSON lists over index pools

WRITE_OPS = ['set', 'del', 'pop', 'upd', 'clear', 'setdef', 'popitem']


def apply_write(a, op, keys, vals):
    """apply one mutating op to archive a; returns None (exceptions propagate)"""
    k = op[0]
    if k == 'set':
        a[keys[op[1]]] = vals[op[2]]
    elif k == 'del':
        try:
            del a[keys[op[1]]]
        except KeyError:
            pass
    elif k == 'pop':
        a.pop(keys[op[1]], None)
    elif k == 'upd':
        a.update(dict((keys[i], vals[j]) for i, j in op[1]))
    elif k == 'clear':
        a.clear()
    elif k == 'setdef':
        a.setdefault(keys[op[1]], vals[op[2]])
    elif k == 'popitem':
        try:
            a.popitem()
        except KeyError:
            pass
    else:
        raise ValueError(k)


def model_write(m, op, keys, vals, popped=None):
    """the same op on the reference dict m (store-time deep copies). popitem needs the item klepto chose: not modelled here"""
    import copy
    k = op[0]
    if k == 'set':
        m[keys[op[1]]] = copy.deepcopy(vals[op[2]])
    elif k == 'del' or k == 'pop':
        m.pop(keys[op[1]], None)
    elif k == 'upd':
        for i, j in op[1]:
            m[keys[i]] = copy.deepcopy(vals[j])
    elif k == 'clear':
        m.clear()
    elif k == 'setdef':
        m.setdefault(keys[op[1]], copy.deepcopy(vals[op[2]]))
    else:
        raise ValueError(k)


def observe(a, view='items', keys=None):
    """what a reader sees through the public interface: ('ok', dict) or ('exc', type name, text).
    view 'items': dict(a.items()); 'keys': only the key listing ({k: None}); 'get': a.get(k) for every pool key, WITHOUT listing the archive"""
    try:
        if view == 'items':
            return ('ok', dict(a.items()))
        if view == 'keys':
            return ('ok', dict((k, None) for k in a.keys()))
        missing = object()
        out = {}
        for k in keys:
            v = a.get(k, missing)
            if v is not missing:
                out[k] = v
        return ('ok', out)
    except BaseException as e:
        return ('exc', type(e).__name__, repr(e))
