"""Common driver: Hypothesis-driven search, root-cause bucketing against the
committed known-findings file, replay files, evidence.

Contract of every check built on this module:
  exit 0  property held on everything explored (KNOWN-FINDING lines allowed)
  exit 1  + line "VIOLATION property=<id> replay=<path>"
  exit 2  harness error (never a VIOLATION line)
"""
import os, sys, json, time, hashlib, re, traceback, collections

VERIF = os.path.dirname(os.path.dirname(os.path.abspath(__file__)))
KLEPTO_SRC = os.environ.get('KLEPTO_SRC', '/repo')
OUT = os.environ.get('VERIF_OUT', VERIF)   # evidence/ and replays/ go here (mutant runs redirect it)


def env_seed():
    try:
        return int(os.environ.get('VERIF_SEED', '1'))
    except ValueError:
        return 1


def env_tier(default='quick'):
    t = os.environ.get('VERIF_TIER', default)
    return t if t in ('quick', 'thorough') else default


class HarnessError(Exception):
    pass


def ensure_klepto():
    """import klepto from the tree under test and verify where it came from"""
    src = os.path.realpath(KLEPTO_SRC)
    if src != os.path.realpath('/repo'):
        # a scratch copy: put it first on sys.path (beats the editable finder)
        sys.path.insert(0, src)
    import klepto
    where = os.path.realpath(klepto.__file__)
    if not where.startswith(src + os.sep):
        raise HarnessError('klepto imported from %s, expected under %s' % (where, src))
    return klepto


class Discrepancy(object):
    """one observed disagreement between klepto and the oracle.
    sig: stable root-cause signature 'Cxx/<where>/<anomaly>' ; detail: free text"""
    __slots__ = ('sig', 'detail')

    def __init__(self, sig, detail=''):
        self.sig = sig
        self.detail = detail

    def __repr__(self):
        return 'Discrepancy(%s: %s)' % (self.sig, self.detail)

    def as_json(self):
        return {'sig': self.sig, 'detail': str(self.detail)[:2000]}


def case_hash(obj):
    return hashlib.md5(json.dumps(obj, sort_keys=True, default=repr).encode()).hexdigest()


# --------------------------------------------------------------------------
# known findings

class Findings(object):
    """the committed known-findings file; never written at run time"""

    def __init__(self, prop):
        path = os.path.join(VERIF, 'known_findings.json')
        self.entries = []
        if os.path.exists(path):
            with open(path) as f:
                data = json.load(f)
            self.entries = [e for e in data.get('findings', []) if e.get('property') == prop]
        self.open = [e for e in self.entries if e.get('status') == 'open']
        self.fixed = [e for e in self.entries if e.get('status') == 'fixed']

    def attribute(self, discr, case, triggers):
        """return the id of the open finding that explains discr in this case,
        or None. Attribution needs BOTH the anomaly signature and the trigger
        predicate over the case to match."""
        for e in self.open:
            pats = e.get('anomalies', [])
            if not any(re.search(p, discr.sig) for p in pats):
                continue
            trig = triggers.get(e.get('trigger'))
            if trig is None:
                continue
            try:
                ok = trig(case, discr)
            except Exception:
                ok = False
            if ok:
                return e['id']
        return None


# --------------------------------------------------------------------------
# the run object (counters + evidence)

class Multi(list):
    """a case that consists of several executions: list of distinctness keys of the non-trivial ones (+ .evals = executions run)"""
    evals = 1


class Run(object):
    def __init__(self, prop, level, rule, tier=None, seed=None, assumptions=()):
        self.prop = prop
        self.level = level
        self.rule = rule
        self.tier = tier or env_tier()
        self.seed = env_seed() if seed is None else seed
        self.assumptions = list(assumptions)
        self.t0 = time.time()
        self.evaluations = 0
        self.nontrivial = set()
        self.classes = collections.Counter()
        self.samples = []
        self._largest = (0, None)
        self.known_hits = collections.Counter()
        self.excluded = collections.Counter()
        self.inconclusive = collections.Counter()
        self.violations = []          # list of (sig, detail, case)
        self.extra = {}
        self.findings = Findings(prop)
        self.known_lines = []
        self.exhaustive = None

    # -- bookkeeping -------------------------------------------------------
    def note(self, case, nontrivial_key=None, classes=(), size=None):
        """record one executed case. nontrivial_key: None (trivial) or a
        hashable 'distinctness' key"""
        self.evaluations += nontrivial_key.evals if isinstance(nontrivial_key, Multi) else 1
        for c in classes:
            self.classes[c] += 1
        if isinstance(nontrivial_key, Multi) and not nontrivial_key:
            nontrivial_key = None
        if nontrivial_key is not None:
            if isinstance(nontrivial_key, Multi):
                hs = [case_hash(x) for x in nontrivial_key]
                new = any(h not in self.nontrivial for h in hs)
                self.nontrivial.update(hs)
                h = hs[0]
            else:
                h = case_hash(nontrivial_key)
                new = h not in self.nontrivial
                self.nontrivial.add(h)
            if new and len(self.samples) < 4 and (len(self.nontrivial) in (1, 7, 40, 150)):
                self.samples.append(case)
            sz = size if size is not None else len(json.dumps(case, default=repr))
            if sz > self._largest[0] and sz < 6000:
                self._largest = (sz, case)

    def require_classes(self, names, minimum=1):
        missing = [n for n in names if self.classes.get(n, 0) < minimum]
        if missing:
            raise HarnessError('generator does not reach class(es) %s (vacuous pass refused)' % missing)

    # -- output ------------------------------------------------------------
    def write_replay(self, case, discrs, tag='v'):
        d = os.path.join(OUT, 'replays')
        os.makedirs(d, exist_ok=True)
        name = '%s_%s_%s.json' % (self.prop, tag, case_hash(case)[:10])
        path = os.path.join(d, name)
        with open(path, 'w') as f:
            json.dump({'property': self.prop, 'case': case,
                       'discrepancies': [x.as_json() for x in discrs],
                       'seed': self.seed, 'tier': self.tier}, f, indent=1, default=repr)
        return path

    def evidence(self):
        samples = list(self.samples)
        if self._largest[1] is not None and self._largest[1] not in samples:
            samples.append(self._largest[1])
        cov = {
            'evaluations': int(self.evaluations),
            'distinct_nontrivial': int(len(self.nontrivial)),
            'rule': self.rule,
            'samples': samples[:5],
            'classes': dict(sorted(self.classes.items())),
            'excluded_by_construction': dict(self.excluded),
            'known_hits': dict(self.known_hits),
            'inconclusive': dict(self.inconclusive),
            'known_finding_lines': self.known_lines,
        }
        if self.exhaustive is not None:
            cov['exhaustive'] = bool(self.exhaustive)
        cov.update(self.extra)
        ev = {
            'property_id': self.prop, 'tier': self.tier, 'seed': int(self.seed),
            'level': self.level, 'coverage': cov,
            'assumptions': self.assumptions,
            'wall_s': round(time.time() - self.t0, 2),
            'violations': len(self.violations),
        }
        return ev

    def write_evidence(self):
        d = os.path.join(OUT, 'evidence')
        os.makedirs(d, exist_ok=True)
        path = os.path.join(d, '%s.json' % self.prop)
        tmp = path + '.tmp%d' % os.getpid()
        with open(tmp, 'w') as f:
            json.dump(self.evidence(), f, indent=1, default=repr)
        os.replace(tmp, path)
        return path

    def finish(self):
        """write evidence, print verdict lines, return the exit code"""
        for line in self.known_lines:
            print(line)
        if self.violations:
            sig, detail, case, path = self.violations[0]
            self.write_evidence()
            seen = []
            for v in self.violations:
                if v[0] not in seen:
                    seen.append(v[0])
            for s in seen[:10]:
                print('  discrepancy: %s' % s)
            print('  detail: %s' % str(detail)[:1500])
            print('VIOLATION property=%s replay=%s' % (self.prop, path))
            return 1
        self.write_evidence()
        print('%s %s seed=%d: held on %d evaluations (%d distinct non-trivial) in %.1fs; known-hits=%s excluded-classes=%d' % (
            self.prop, self.tier, self.seed, self.evaluations, len(self.nontrivial),
            time.time() - self.t0, dict(self.known_hits), len(self.excluded)))
        return 0


# --------------------------------------------------------------------------
# Hypothesis driver

def hypothesis_search(run, strategy, execute, triggers=None, max_examples=100,
                      shrink_budget_s=60, on_case=None, time_budget_s=None):
    """Drive execute(case)->[Discrepancy] over cases drawn from strategy.
    Unknown discrepancies fail the Hypothesis test (=> shrinking); the smallest
    failing case seen is written as the replay file.  Known findings are
    attributed (trigger AND anomaly) and counted."""
    import hypothesis
    from hypothesis import given, settings, seed, HealthCheck, Phase
    triggers = triggers or {}
    state = {'best': None, 'first_fail_t': None, 'stop': False, 'sigs': []}
    t_start = time.time()

    def one(case):
        if state['stop']:
            return
        if time_budget_s is not None and time.time() - t_start > time_budget_s and state['best'] is None:
            run.inconclusive['time_budget_hit'] += 1
            state['stop'] = True
            return
        if state['first_fail_t'] is not None and time.time() - state['first_fail_t'] > shrink_budget_s:
            state['stop'] = True
            return
        discrs = execute(case)
        if on_case is not None:
            on_case(case, discrs)
        unknown = []
        for d in discrs:
            fid = run.findings.attribute(d, case, triggers)
            if fid is not None:
                run.known_hits[fid] += 1
            else:
                unknown.append(d)
        if unknown:
            if state['first_fail_t'] is None:
                state['first_fail_t'] = time.time()
            for d in unknown:
                if d.sig not in state['sigs']:
                    state['sigs'].append(d.sig)
            size = len(json.dumps(case, default=repr))
            if state['best'] is None or size <= state['best'][0]:
                state['best'] = (size, case, unknown)
            raise AssertionError(unknown[0].sig)

    test = given(case=strategy)(lambda case: one(case))
    test = seed(run.seed)(test)
    test = settings(max_examples=max_examples, database=None, deadline=None,
                    report_multiple_bugs=False, derandomize=False,
                    suppress_health_check=list(HealthCheck),
                    phases=[Phase.generate, Phase.shrink])(test)
    try:
        test()
    except hypothesis.errors.Unsatisfiable as e:
        raise HarnessError('generator unsatisfiable: %s' % e)
    except Exception:
        if state['best'] is None:
            # an exception that did not come from an oracle discrepancy is a
            # harness error (the oracles never raise on purpose)
            raise HarnessError('unexpected exception in harness:\n' + traceback.format_exc())
    if state['best'] is not None:
        size, case, unknown = state['best']
        path = run.write_replay(case, unknown)
        for d in unknown:
            run.violations.append((d.sig, d.detail, case, path))
        for s in state['sigs']:
            if s not in [v[0] for v in run.violations]:
                run.violations.append((s, '(other signature seen during search)', None, path))


def run_regressions(run, execute, triggers=None, probes_only=False):
    """Replay committed cases, bypassing Hypothesis.
    regress/<prop>/*.json : {'case':..., 'expect': 'pass'|'finding', 'finding': id, 'what': text}
      expect=pass    : must produce no (unknown) discrepancy  [covers 'fixed' entries + shrunk past failures]
      expect=finding : probe of an open known finding; if it still fails print KNOWN-FINDING
    """
    triggers = triggers or {}
    d = os.path.join(VERIF, 'regress', run.prop)
    if not os.path.isdir(d):
        return
    open_ids = set(e['id'] for e in run.findings.open)
    for name in sorted(os.listdir(d)):
        if not name.endswith('.json'):
            continue
        with open(os.path.join(d, name)) as f:
            rec = json.load(f)
        case = rec['case']
        discrs = execute(case)
        run.evaluations += 1
        run.classes['regress_replayed'] += 1
        if rec.get('expect') == 'finding':
            fid = rec.get('finding')
            if fid not in open_ids:
                # stale probe (finding no longer listed open): treat as expect=pass
                unknown = list(discrs)
            else:
                matched = [x for x in discrs if run.findings.attribute(x, case, triggers) == fid]
                unknown = [x for x in discrs if run.findings.attribute(x, case, triggers) is None]
                if matched:
                    run.known_hits[fid] += 1
                    what = rec.get('what') or matched[0].sig
                    run.known_lines.append('KNOWN-FINDING: property=%s %s [%s]' % (run.prop, what, fid))
                else:
                    print('NOTE: known finding %s did not reproduce on this tree (probe %s)' % (fid, name))
        else:
            unknown = [x for x in discrs if run.findings.attribute(x, case, triggers) is None]
        if unknown:
            path = run.write_replay(case, unknown, tag='regress')
            for x in unknown:
                run.violations.append((x.sig, x.detail, case, path))


def main_wrapper(fn):
    """run fn() -> exit code with the exit-2-on-harness-error convention"""
    try:
        code = fn()
    except HarnessError as e:
        sys.stdout.flush()
        sys.stderr.write('HARNESS-ERROR: %s\n' % e)
        sys.exit(2)
    except SystemExit:
        raise
    except BaseException:
        sys.stdout.flush()
        sys.stderr.write('HARNESS-ERROR: unexpected\n' + traceback.format_exc())
        sys.exit(2)
    sys.stdout.flush()
    sys.exit(code)
