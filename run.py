#!/venv/bin/python
"""Runner for the klepto property checks.

  run.py Cxx [--tier quick|thorough] [--replay FILE] [--shards N]

exit 0 held / exit 1 + 'VIOLATION property=Cxx replay=...' / exit 2 harness error.
VERIF_SEED and VERIF_TIER are honoured.  Every run is a function of
(tree, seed, tier): PYTHONHASHSEED is pinned to 0 by re-exec.
"""
import zlib, os, sys, json, time, argparse, subprocess, importlib, tempfile, shutil

HERE = os.path.dirname(os.path.abspath(__file__))
sys.path.insert(0, HERE)
os.environ.setdefault('PYTHONDONTWRITEBYTECODE', '1')

from harness import core  # noqa: E402


def load_module(prop):
    name = 'props.%s' % prop.lower()
    try:
        return importlib.import_module(name)
    except ImportError as e:
        raise core.HarnessError('no check module for %s (%s)' % (prop, e))


def shard_seed(seed, i):
    return seed * 1009 + i


def run_shard(mod, tier, seed, i, n, partial_out=None, work=None):
    """one shard, in this process; returns the Run"""
    core.ensure_klepto()
    run = core.Run(mod.PROP, mod.LEVEL, mod.RULE, tier=tier, seed=seed, assumptions=getattr(mod, 'ASSUMPTIONS', ()))
    triggers = getattr(mod, 'TRIGGERS', {})
    excl = getattr(mod, 'EXCLUDED', None)
    if excl:
        for k, v in excl.items():
            run.excluded[k] = v

    def execute(case):
        discrs, nt, classes = mod.run_case(case)
        run.note(case, nt, classes)
        return discrs

    if i == 0:
        core.run_regressions(run, execute, triggers)
        if hasattr(mod, 'probes'):
            mod.probes(run)
    if not run.violations:
        n_ex = mod.N[tier]
        if isinstance(n_ex, (list, tuple)):
            n_ex = n_ex[0]
        budget = getattr(mod, 'TIME_BUDGET', {}).get(tier) or (2400 if tier == 'thorough' else None)   # a budget hit is recorded as inconclusive
        sb = 45 if tier == 'quick' else 240
        if hasattr(mod, 'strata'):
            allst = mod.strata(tier)
            mine = allst[i::n]
            each = max(getattr(mod, 'MIN_PER_STRATUM', 4), n_ex // max(1, len(mine)))
            t_shard = time.time()
            for j, entry in enumerate(mine):
                name, strat = entry[0], entry[1]
                weight = entry[2] if len(entry) > 2 else 1          # optional third element: a multiple of the per-stratum budget
                # the stratum's seed depends on VERIF_SEED and the stratum's NAME only: adding or reordering strata does not change what the others generate
                run.seed = (seed * 1000003 + zlib.crc32(name.encode())) & 0x7fffffff
                run.classes['stratum:' + name] += 0
                left = None
                if budget is not None:
                    # the budget is for the whole shard: strata share it evenly, a stratum that ends early passes its share on
                    left = (budget - (time.time() - t_shard)) / max(1, len(mine) - j)
                    if left <= 0:
                        run.inconclusive['time_budget_hit'] += 1
                        break
                core.hypothesis_search(run, strat, execute, triggers=triggers, max_examples=each * weight,
                                       shrink_budget_s=sb, time_budget_s=left)
                if run.violations:
                    break
        else:
            run.seed = shard_seed(seed, i) if n > 1 else seed
            strat = mod.strategy(tier)
            core.hypothesis_search(run, strat, execute, triggers=triggers, max_examples=n_ex,
                                   shrink_budget_s=sb, time_budget_s=budget)
        run.seed = seed
    if not run.violations and hasattr(mod, 'extra_passes'):
        mod.extra_passes(run, tier, i, n)
    if partial_out:
        with open(partial_out, 'w') as f:
            json.dump(export_partial(run), f, default=repr)
    return run


def export_partial(run):
    return {
        'evaluations': run.evaluations, 'nontrivial': sorted(run.nontrivial), 'classes': dict(run.classes),
        'samples': run.samples, 'largest': list(run._largest), 'known_hits': dict(run.known_hits),
        'excluded': dict(run.excluded), 'inconclusive': dict(run.inconclusive),
        'violations': [[v[0], str(v[1]), v[2], v[3]] for v in run.violations],
        'known_lines': run.known_lines, 'extra': run.extra, 'exhaustive': run.exhaustive,
    }


def merge_partial(run, p):
    run.evaluations += p['evaluations']
    run.nontrivial.update(p['nontrivial'])
    for k, v in p['classes'].items():
        run.classes[k] += v
    for s in p['samples']:
        if len(run.samples) < 4:
            run.samples.append(s)
    if p['largest'] and p['largest'][0] > run._largest[0]:
        run._largest = (p['largest'][0], p['largest'][1])
    for k, v in p['known_hits'].items():
        run.known_hits[k] += v
    for k, v in p['excluded'].items():
        if isinstance(v, (int, float)) and isinstance(run.excluded.get(k, 0), (int, float)):
            run.excluded[k] = run.excluded.get(k, 0) + v
        else:
            run.excluded[k] = v
    for k, v in p['inconclusive'].items():
        run.inconclusive[k] += v
    for v in p['violations']:
        run.violations.append(tuple(v))
    for l in p['known_lines']:
        if l not in run.known_lines:
            run.known_lines.append(l)
    for k, v in (p.get('extra') or {}).items():
        if isinstance(v, (int, float)) and isinstance(run.extra.get(k, 0), (int, float)) and not isinstance(v, bool):
            run.extra[k] = run.extra.get(k, 0) + v
        else:
            run.extra.setdefault(k, v)
    if p.get('exhaustive') is not None:
        run.exhaustive = p['exhaustive'] if run.exhaustive is None else (run.exhaustive and p['exhaustive'])


def main():
    ap = argparse.ArgumentParser()
    ap.add_argument('prop')
    ap.add_argument('--tier', default=None)
    ap.add_argument('--replay', default=None)
    ap.add_argument('--shards', type=int, default=None)
    ap.add_argument('--shard', default=None, help='i/n (internal)')
    ap.add_argument('--partial-out', default=None)
    a = ap.parse_args()
    prop = a.prop.upper()
    tier = a.tier or core.env_tier()
    os.environ['VERIF_TIER'] = tier
    seed = core.env_seed()

    if os.environ.get('PYTHONHASHSEED') != '0':
        env = dict(os.environ, PYTHONHASHSEED='0')
        os.execve(sys.executable, [sys.executable] + sys.argv, env)

    mod = load_module(prop)
    if getattr(mod, 'NEEDS_SHIM', False):
        from harness import shim
        shim.reexec_with_preload()      # builds .build/vshim.so if needed; no-op when already preloaded

    if a.replay:
        core.ensure_klepto()
        with open(a.replay) as f:
            rec = json.load(f)
        case = rec['case'] if 'case' in rec else rec
        discrs, nt, classes = mod.run_case(case)
        run = core.Run(mod.PROP, mod.LEVEL, mod.RULE, tier=tier, seed=seed)
        unknown = [d for d in discrs if run.findings.attribute(d, case, getattr(mod, 'TRIGGERS', {})) is None]
        for d in discrs:
            print('  %s%s: %s' % ('' if d in unknown else '(known) ', d.sig, str(d.detail)[:1500]))
        if unknown:
            print('VIOLATION property=%s replay=%s' % (prop, os.path.abspath(a.replay)))
            return 1
        print('replay: no violation')
        return 0

    if a.shard:
        i, n = [int(x) for x in a.shard.split('/')]
        run_shard(mod, tier, seed, i, n, partial_out=a.partial_out)
        return 0

    shards = a.shards or getattr(mod, 'SHARDS', {}).get(tier, 4 if tier == 'quick' else 16)
    if shards <= 1:
        run = run_shard(mod, tier, seed, 0, 1)
    else:
        run = core.Run(mod.PROP, mod.LEVEL, mod.RULE, tier=tier, seed=seed, assumptions=getattr(mod, 'ASSUMPTIONS', ()))
        if os.environ.get('VERIF_TMP'):
            os.makedirs(os.environ['VERIF_TMP'], exist_ok=True)
        work = tempfile.mkdtemp(prefix='kvrun_', dir=os.environ.get('VERIF_TMP'))
        try:
            procs = []
            for i in range(shards):
                out = os.path.join(work, 'part_%d.json' % i)
                cmd = [sys.executable, os.path.abspath(__file__), prop, '--tier', tier, '--shard', '%d/%d' % (i, shards),
                       '--partial-out', out]
                env = dict(os.environ, VERIF_TMP=os.path.join(work, 'tmp%d' % i))
                procs.append((i, out, subprocess.Popen(cmd, env=env, stdout=subprocess.PIPE, stderr=subprocess.PIPE)))
            errs = []
            for i, out, p in procs:
                so, se = p.communicate()
                if so.strip():
                    sys.stdout.write(so.decode(errors='replace'))
                if p.returncode != 0 or not os.path.exists(out):
                    errs.append('shard %d exit %s: %s' % (i, p.returncode, se.decode(errors='replace')[-3000:]))
                    continue
                with open(out) as f:
                    merge_partial(run, json.load(f))
            if errs and not run.violations:
                raise core.HarnessError('\n'.join(errs))
        finally:
            shutil.rmtree(work, ignore_errors=True)
    fz = getattr(mod, 'FUZZ_SECONDS', 0)
    if tier == 'thorough' and fz and not run.violations:
        # coverage-guided campaign (libFuzzer via atheris) over the same strategy and oracle; see tools/fuzz.py
        import re
        r = subprocess.run([sys.executable, os.path.join(HERE, 'tools', 'fuzz.py'), prop, '--seconds', str(fz)], capture_output=True, text=True)
        text = r.stdout + r.stderr
        m = re.search(r'Done (\d+) runs', text) or re.search(r'number_of_executed_units: (\d+)', text)
        if r.returncode == 1 and 'VIOLATION' in text:
            vl = [l for l in text.splitlines() if l.startswith('VIOLATION')][0]
            path = vl.split('replay=')[-1].strip()
            sig = ([l.split('discrepancy:')[1].strip() for l in text.splitlines() if 'discrepancy:' in l] or ['fuzz'])[0]
            run.violations.append((sig, '(found by the coverage-guided campaign)\n' + text[-1500:], None, path))
        elif r.returncode == 0 or m:
            run.extra['coverage_guided_executions'] = int(m.group(1)) if m else 0
            run.evaluations += int(m.group(1)) if m else 0
        else:
            run.inconclusive['coverage_guided_campaign_unavailable'] += 1
    req = getattr(mod, 'REQUIRED_CLASSES', None)
    if req and not run.violations:
        run.require_classes(req)
    if len(run.nontrivial) < 2 and not run.violations:
        raise core.HarnessError('fewer than 2 distinct non-trivial cases: vacuous run')
    return run.finish()


if __name__ == '__main__':
    core.main_wrapper(main)
