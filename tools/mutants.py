#!/venv/bin/python
"""Sensitivity harness (not a registered check): run checks against seeded changes.

  mutants.py list
  mutants.py run <mutant-dir-name>... [--check Cxx[,Cyy]] [--tier quick] [--jobs N] [--seed S]
  mutants.py all [--jobs N]

Each mutant is applied to a scratch copy of /repo/klepto under a temp dir
(KLEPTO_SRC points the check at it); /repo is never modified; the copy and all
outputs are removed afterwards.  Result line: <mutant> <check> caught|MISSED|error (secs).
"""
import os, sys, json, shutil, subprocess, tempfile, time, argparse
from concurrent.futures import ThreadPoolExecutor

HERE = os.path.dirname(os.path.dirname(os.path.abspath(__file__)))
SEEDED = os.path.join(HERE, 'seeded')
EXTRA = os.path.join(HERE, 'mutants')


def find(name):
    for base in (SEEDED, EXTRA):
        d = os.path.join(base, name)
        if os.path.isdir(d):
            return d
    raise SystemExit('no such mutant %s' % name)


def all_names():
    out = []
    for base in (SEEDED, EXTRA):
        if os.path.isdir(base):
            out += sorted(n for n in os.listdir(base) if os.path.exists(os.path.join(base, n, 'patch.diff')))
    return out


def run_one(name, check, tier, seed):
    d = find(name)
    work = tempfile.mkdtemp(prefix='kvmut_')
    t0 = time.time()
    try:
        src = os.path.join(work, 'src')
        os.makedirs(src)
        shutil.copytree('/repo/klepto', os.path.join(src, 'klepto'), ignore=shutil.ignore_patterns('__pycache__', '*.pyc'))
        r = subprocess.run(['git', 'apply', '--unsafe-paths', '--directory', src, os.path.join(d, 'patch.diff')],
                           cwd=src, capture_output=True, text=True)
        if r.returncode != 0:
            r = subprocess.run(['patch', '-p1', '-i', os.path.join(d, 'patch.diff')], cwd=src, capture_output=True, text=True)
            if r.returncode != 0:
                return (name, check, 'error', 'patch does not apply: ' + r.stdout[-300:] + r.stderr[-300:], 0)
        env = dict(os.environ, KLEPTO_SRC=src, VERIF_OUT=os.path.join(work, 'out'), VERIF_TMP=os.path.join(work, 'tmp'),
                   VERIF_SEED=str(seed), PYTHONDONTWRITEBYTECODE='1')
        p = subprocess.run([os.path.join(HERE, 'run.py'), check, '--tier', tier], cwd=HERE, env=env, capture_output=True, text=True)
        out = p.stdout + p.stderr
        viol = [l for l in out.splitlines() if l.startswith('VIOLATION')]
        sigs = [l.strip() for l in out.splitlines() if l.strip().startswith('discrepancy:')]
        if p.returncode == 1 and viol:
            return (name, check, 'caught', '; '.join(sigs[:3]), time.time() - t0)
        if p.returncode == 0:
            return (name, check, 'MISSED', out.strip().splitlines()[-1][:200] if out.strip() else '', time.time() - t0)
        return (name, check, 'error', out[-600:], time.time() - t0)
    finally:
        shutil.rmtree(work, ignore_errors=True)


def demo_one(name):
    """is the seeded change still live on the current tree? apply it to a scratch copy and run its own demonstration"""
    d = find(name)
    demo = os.path.join(d, 'demo.py')
    work = tempfile.mkdtemp(prefix='kvdemo_')
    try:
        src = os.path.join(work, 'src')
        os.makedirs(src)
        shutil.copytree('/repo/klepto', os.path.join(src, 'klepto'), ignore=shutil.ignore_patterns('__pycache__', '*.pyc'))
        r = subprocess.run(['git', 'apply', '--unsafe-paths', '--directory', src, os.path.join(d, 'patch.diff')], cwd=src, capture_output=True, text=True)
        if r.returncode != 0:
            r = subprocess.run(['patch', '-p1', '-i', os.path.join(d, 'patch.diff')], cwd=src, capture_output=True, text=True)
            if r.returncode != 0:
                return (name, 'patch-does-not-apply')
        if not os.path.exists(demo):
            return (name, 'no-demo')
        env = dict(os.environ, PYTHONPATH=src, PYTHONDONTWRITEBYTECODE='1')
        env.pop('LD_PRELOAD', None)
        # demos written by sub-agents locate klepto through PYTHONPATH; older ones sit next to a 'klepto' dir: give them one
        dd = os.path.join(src, 'demo')
        os.makedirs(dd)
        shutil.copy(demo, os.path.join(dd, 'demo.py'))
        try:
            p = subprocess.run(['/venv/bin/python', os.path.join(dd, 'demo.py')], cwd=work, env=env, capture_output=True, text=True, timeout=600)
        except subprocess.TimeoutExpired:
            return (name, 'demo-timeout')
        return (name, 'live (demo fails)' if p.returncode != 0 else 'NEUTRALISED on the current tree (demo passes with the change applied)')
    finally:
        shutil.rmtree(work, ignore_errors=True)


def main():
    ap = argparse.ArgumentParser()
    ap.add_argument('cmd')
    ap.add_argument('names', nargs='*')
    ap.add_argument('--check', default=None)
    ap.add_argument('--tier', default='quick')
    ap.add_argument('--jobs', type=int, default=4)
    ap.add_argument('--seed', type=int, default=1)
    a = ap.parse_args()
    if a.cmd == 'list':
        print('\n'.join(all_names()))
        return
    if a.cmd == 'demo':
        with ThreadPoolExecutor(a.jobs) as ex:
            for res in ex.map(demo_one, a.names or all_names()):
                print('%-12s %s' % res)
        return
    names = all_names() if a.cmd == 'all' else a.names
    jobs = []
    for n in names:
        meta = {}
        mp = os.path.join(find(n), 'meta.json')
        if os.path.exists(mp):
            meta = json.load(open(mp))
        checks = a.check.split(',') if a.check else (meta.get('run_checks') or [meta.get('breaks_property') or n[:3]])
        for c in checks:
            if os.path.exists(os.path.join(HERE, 'props', c.lower() + '.py')):
                jobs.append((n, c))
            else:
                print('%s %s skipped (no check module yet)' % (n, c))
    with ThreadPoolExecutor(a.jobs) as ex:
        for res in ex.map(lambda j: run_one(j[0], j[1], a.tier, a.seed), jobs):
            print('%-12s %-4s %-7s %5.0fs  %s' % (res[0], res[1], res[2], res[4], res[3]))
            sys.stdout.flush()


if __name__ == '__main__':
    main()
