#!/venv/bin/python
"""Root-cause survey (not a registered check): draw N cases per stratum, execute, bucket discrepancy
signatures with the smallest example of each.   bucket.py Cxx [N] [seed]"""
import os, sys, json, collections
HERE = os.path.dirname(os.path.dirname(os.path.abspath(__file__)))
sys.path.insert(0, HERE)
os.environ.setdefault('PYTHONHASHSEED', '0')
from harness import core
import importlib
from hypothesis import given, settings, seed, HealthCheck, Phase


def main():
    prop = sys.argv[1].upper()
    n = int(sys.argv[2]) if len(sys.argv) > 2 else 500
    sd = int(sys.argv[3]) if len(sys.argv) > 3 else 1
    core.ensure_klepto()
    mod = importlib.import_module('props.' + prop.lower())
    strata = mod.strata('quick') if hasattr(mod, 'strata') else [('all', mod.strategy('quick'))]
    buckets = {}
    counts = collections.Counter()
    classes = collections.Counter()
    total = [0]
    for name, strat in strata:
        def one(case):
            discrs, nt, cl = mod.run_case(case)
            total[0] += 1
            for c in cl:
                classes[c] += 1
            for d in discrs:
                counts[d.sig] += 1
                sz = len(json.dumps(case, default=repr))
                if d.sig not in buckets or sz < buckets[d.sig][0]:
                    buckets[d.sig] = (sz, case, d.detail)
        t = given(case=strat)(lambda case: one(case))
        t = seed(sd)(t)
        t = settings(max_examples=n, database=None, deadline=None, suppress_health_check=list(HealthCheck), phases=[Phase.generate])(t)
        t()
    print('cases', total[0])
    for c, v in sorted(classes.items()):
        print('  class %-40s %d' % (c, v))
    for sig, cnt in sorted(counts.items(), key=lambda x: -x[1]):
        sz, case, detail = buckets[sig]
        print('%6d  %s\n        %s\n        %s' % (cnt, sig, str(detail)[:400], json.dumps(case, default=repr)[:600]))


if __name__ == '__main__':
    main()
