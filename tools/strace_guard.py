#!/venv/bin/python
"""Completeness guard for shim/vshim.c (used by the thorough tier of C13; also runnable by hand).

For every persistent archive configuration a fixed workload of mutating operations runs in a fresh interpreter with the shim
armed in count mode (event log on fd LOG) under `strace -f`.  Because the shim writes its log record immediately before it
lets the real call through, the strace output must alternate:  write(LOG, "<n> <kind> ...")  then the system call itself.
Checked both ways:
  * every mutating system call that names a path under the archive root, or acts on a descriptor opened under it for writing,
    is directly preceded by a shim record (otherwise the shim has a hole: crash enumeration would be coarser than claimed);
  * every shim record is directly followed by a system call of a compatible kind.
Exit 0 / prints per-config counts; exit 2 on any mismatch.
"""
import os, re, sys, subprocess, tempfile, shutil

HERE = os.path.dirname(os.path.dirname(os.path.abspath(__file__)))
sys.path.insert(0, HERE)

WORKLOAD = r'''
import sys, os
sys.path.insert(0, %(verif)r)
from harness import core, arch as A, shim
core.ensure_klepto()
cfg, root, logpath = sys.argv[1:4]
L = shim.lib()
log = os.open(logpath, os.O_WRONLY | os.O_CREAT | os.O_TRUNC)
os.dup2(log, 199)
L.vshim_arm(os.fsencode(root), 0, 0, 199)
a = A.open_archive(cfg, root, 'A')
a['a'] = 1
a['a'] = 2
if A.codec(cfg) not in ('json',):
    a[5] = 7
a.update({'b': 3, 'c': 4})
a.pop('b')
del a['c']
a.setdefault('d', 9)
c = A.open_archive(cfg, root, 'A', cached=True)
c['e'] = 1
c.dump()
c.sync()
b = a.copy(A.copy_name(cfg, root, 'B'))
a.clear()
n = L.vshim_disarm()
os.write(199, b'END of armed region\n')
print(n)
'''

SYSCALLS = 'openat,open,creat,write,pwrite64,writev,pwritev,pwritev2,close,mkdir,mkdirat,rename,renameat,renameat2,unlink,unlinkat,rmdir,ftruncate,truncate,' \
           'fsync,fdatasync,chmod,fchmod,fchmodat,fchown,utimensat,link,linkat,symlink,symlinkat,copy_file_range,sendfile,fallocate,dup,dup2,dup3,fcntl'

KIND_OF = {'mkdir': 'mkdir', 'mkdirat': 'mkdir', 'rename': 'rename', 'renameat': 'rename', 'renameat2': 'rename', 'unlink': 'unlink', 'rmdir': 'rmdir',
           'write': 'write', 'pwrite64': 'pwrite', 'writev': 'writev', 'ftruncate': 'ftruncate', 'truncate': 'truncate', 'fsync': 'fsync', 'fdatasync': 'fdatasync',
           'chmod': 'chmod', 'fchmod': 'fchmod', 'fchmodat': 'chmod', 'fchown': 'fchown', 'utimensat': 'utimens', 'link': 'link', 'linkat': 'link', 'symlink': 'symlink',
           'symlinkat': 'symlink', 'copy_file_range': 'copy_file_range', 'sendfile': 'sendfile', 'fallocate': 'fallocate'}


def check(cfg, keep=False):
    from harness import shim
    shim.ensure_built()
    work = tempfile.mkdtemp(prefix='sguard_')
    try:
        root = os.path.join(work, 'root')
        os.makedirs(root)
        script = os.path.join(work, 'workload.py')
        with open(script, 'w') as f:
            f.write(WORKLOAD % {'verif': HERE})
        st = os.path.join(work, 'strace.txt')
        env = dict(os.environ, LD_PRELOAD=shim.SO, PYTHONHASHSEED='0', PYTHONDONTWRITEBYTECODE='1')
        r = subprocess.run(['strace', '-f', '-qq', '-s', '300', '-o', st, '-e', 'trace=' + SYSCALLS, sys.executable, script, cfg, root, os.path.join(work, 'shim.log')],
                           env=env, capture_output=True, text=True, cwd=work)
        if r.returncode != 0:
            return None, ['workload failed: %s' % (r.stdout + r.stderr)[-600:]]
        nshim = int(r.stdout.strip().splitlines()[-1])
        return analyse(st, root, nshim)
    finally:
        if not keep:
            shutil.rmtree(work, ignore_errors=True)


LINE = re.compile(r'^(\d+)\s+(\w+)\((.*)\)\s+=\s+(-?\d+|\?)')


def analyse(st, root, nshim):
    problems = []
    fds = {}       # fd -> (path, writable)
    prev_rec = None   # shim record pending a system call: (n, kind)
    nrec = nsys = 0
    for raw in open(st, errors='replace'):
        m = LINE.match(raw)
        if not m:
            continue
        pid, name, args, ret = m.groups()
        ret_i = int(ret) if ret not in ('?',) else -1
        if name == 'write' and args.startswith('199, "END of armed region'):
            break
        if name == 'write' and args.startswith('199, "'):
            body = args[6:]
            mm = re.match(r'(\d+) ([\w-]+) ', body)
            if mm:
                if prev_rec is not None:
                    problems.append('shim record %r not followed by a system call' % (prev_rec,))
                prev_rec = (int(mm.group(1)), mm.group(2))
                nrec += 1
            continue
        kind = None
        if name in ('openat', 'open', 'creat'):
            pm = re.search(r'"((?:[^"\\]|\\.)*)"', args)
            path = pm.group(1) if pm else ''
            dm = re.match(r'(\d+)<', args) or re.match(r'(\d+),', args)
            if not path.startswith('/') and name == 'openat' and dm and int(dm.group(1)) in fds:
                path = fds[int(dm.group(1))][0] + '/' + path
            under = path.startswith(root + '/') or path == root
            w = any(f in args for f in ('O_WRONLY', 'O_RDWR', 'O_CREAT', 'O_TRUNC', 'O_APPEND')) or name == 'creat'
            if under and ret_i >= 0:
                fds[ret_i] = (path, w)
            if under and w:
                kind = 'open-w'
        elif name == 'close':
            fd = int(args.split(',')[0]) if args.split(',')[0].isdigit() else -1
            if fd in fds:
                if fds[fd][1]:
                    kind = 'close-w'
                del fds[fd]
        elif name in ('dup', 'dup2', 'dup3', 'fcntl'):
            continue
        elif name in KIND_OF:
            first = args.split(',')[0].strip()
            if name in ('write', 'pwrite64', 'writev', 'ftruncate', 'fsync', 'fdatasync', 'fchmod', 'fchown', 'fallocate'):
                fd = int(first) if first.isdigit() else -1
                if fd in fds and (fds[fd][1] or name in ('fsync', 'fdatasync')):
                    kind = KIND_OF[name]
            elif name in ('copy_file_range', 'sendfile'):
                nums = re.findall(r'(?:^|, )(\d+)', args)
                outfd = int(nums[0]) if name == 'sendfile' else (int(re.findall(r'\d+', args.split(',')[2])[0]) if len(args.split(',')) > 2 else -1)
                if outfd in fds:
                    kind = KIND_OF[name]
            else:
                paths = re.findall(r'"((?:[^"\\]|\\.)*)"', args)
                resolved = []
                dm = re.match(r'(\d+),', args)
                for p in paths:
                    if not p.startswith('/') and dm and int(dm.group(1)) in fds:
                        p = fds[int(dm.group(1))][0] + '/' + p
                    resolved.append(p)
                if any(p.startswith(root + '/') or p == root for p in resolved):
                    kind = KIND_OF[name]
                    if name == 'unlinkat' or (name == 'unlink'):
                        kind = 'rmdir' if 'AT_REMOVEDIR' in args else 'unlink'
        elif name == 'unlinkat':
            pass
        if name == 'unlinkat':
            paths = re.findall(r'"((?:[^"\\]|\\.)*)"', args)
            dm = re.match(r'(\d+),', args)
            p = paths[0] if paths else ''
            if not p.startswith('/') and dm and int(dm.group(1)) in fds:
                p = fds[int(dm.group(1))][0] + '/' + p
            if p.startswith(root + '/') or p == root:
                kind = 'rmdir' if 'AT_REMOVEDIR' in args else 'unlink'
        if kind is None:
            continue
        nsys += 1
        if prev_rec is None:
            problems.append('system call without a shim record before it: %s(%s)' % (name, args[:160]))
        else:
            if prev_rec[1] != kind:
                problems.append('shim record %r followed by %s(%s) [%s]' % (prev_rec, name, args[:120], kind))
            prev_rec = None
    if prev_rec is not None:
        problems.append('last shim record %r not followed by a system call' % (prev_rec,))
    if nrec != nshim:
        problems.append('shim counted %d events, %d records seen in strace' % (nshim, nrec))
    return (nrec, nsys), problems


def main():
    from harness import arch as A
    cfgs = sys.argv[1:] or A.PERSISTENT
    bad = 0
    for cfg in cfgs:
        counts, problems = check(cfg)
        print('%-10s shim-records/syscalls %s  problems %d' % (cfg, counts, len(problems)))
        for p in problems[:8]:
            print('    ' + p)
        bad += len(problems)
    sys.exit(2 if bad else 0)


if __name__ == '__main__':
    main()
