#!/venv/bin/python
"""build the libc interposition shim (if its source exists)"""
import os, subprocess, sys
HERE = os.path.dirname(os.path.dirname(os.path.abspath(__file__)))
src = os.path.join(HERE, 'shim', 'vshim.c')
out = os.path.join(HERE, '.build', 'vshim.so')
if not os.path.exists(src):
    sys.exit(0)
os.makedirs(os.path.dirname(out), exist_ok=True)
if os.path.exists(out) and os.path.getmtime(out) >= os.path.getmtime(src):
    sys.exit(0)
cc = 'clang' if subprocess.call(['which', 'clang'], stdout=subprocess.DEVNULL) == 0 else 'gcc'
sys.exit(subprocess.call([cc, '-O1', '-w', '-shared', '-fPIC', '-o', out, src, '-ldl']))
