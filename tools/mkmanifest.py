#!/venv/bin/python
"""Regenerate MANIFEST.json from the table below (kept valid at all times)."""
import json, os

HERE = os.path.dirname(os.path.dirname(os.path.abspath(__file__)))
ALL = ['C%02d' % i for i in range(1, 21)]

# property -> (level, text, note, technique)
PBT = 'property-based testing (Hypothesis, stratified over class x purge x backend family): generated histories executed against the real decorators; '
CHECKS = {
    'C01': ('exploration', 'every call result compared type-exactly with the undecorated reference function over generated histories with management ops, all 12 classes, info-preserving keymaps + defaults, 18 backends', 'generated functions are deterministic and equality-respecting; codec value domains computed per backend; listed exclusions', PBT + 'differential oracle (undecorated function)'),
    'C02': ('exploration', 'per-call compute-once predicate from observed pre-state + derived at-most-once-per-key clause with an archive attached; incl. re-decoration, re-open and forked sessions', 'pre-state observed via f.__cache__() and archive snapshots; bounded histories', PBT + 'per-step predicate over observed pre-state and evaluation log'),
    'C06': ('exploration', 'independent recency/frequency model decides the exact LRU/MRU victim and the LFU/RR validity predicate after every overflow; thorough tier adds a bounded-exhaustive sweep of all 5^7 histories x 48 configs', 'usage model rebuilt from observed resident sets only; bulk load() excluded (no usage record)', PBT + 'reference policy model; bounded-exhaustive enumeration in the thorough tier'),
    'C07': ('exploration', 'after every call: victims are in the archive with the same value, archive monotone, every computed result retrievable; 12 archive backends; archive attached after decoration; results the archive cannot store; thorough tier adds a bounded-exhaustive sweep (all 7^5 histories x 88 configurations)', 'alias-free keys for dir archives; archive contents read through __asdict__', PBT + 'history invariant oracle over archive snapshots'),
    'C15': ('exploration', 'per-call ground truth for hit/miss/load from the observed pre-state and the evaluation log; resets; size/maxsize fields; raising calls; degraded safe calls; thorough tier adds a bounded-exhaustive sweep (all 7^5 histories x 88 configurations)', 'f.key() identifies the call (checked separately by C18)', PBT + 'per-step ground-truth oracle'),
    'C16': ('exploration', '(a) raising calls: same exception object, one evaluation, state unchanged, and a twin run without the raising calls is indistinguishable afterwards; (b) safe decorators with hostile arguments under every keymap degrade to plain evaluation', 'twin equivalence observed through public state; hostile objects limited to unhashable / unencodable ones (raising __eq__ is outside the statement)', PBT + 'metamorphic twin-run oracle + differential oracle'),
    'C18': ('exploration', 'key() equals the storage key of every miss, lookup() agrees with the resident set, neither touches state, and a twin run without introspection ops is indistinguishable; ignore/tol/deep settings included', 'residency for archives used directly as the cache is the archive own membership test', PBT + 'metamorphic twin-run oracle + per-step predicates'),
    'C20': ('exploration', 'dill round trip of the decorated function: equal contents/info/config, then continuation on original vs clone (persistent storage rewound in between) compared step by step; independence and shared-store visibility', 'sqlite-backed caches do not pickle and are excluded', PBT + 'round-trip + lock-step differential oracle'),
    'C09': ('exploration', 'pairs of call spellings that Python binds identically (inspect.signature.bind) must give equal keys and one evaluation: every keymap class x flat x typed x sentinel, paths f.key / keygen / _keygen / real call, functions, methods and partials', 'identical argument objects in both spellings; positional-only parameters not generated', 'property-based testing (Hypothesis): generated signatures, bindings and spelling pairs; metamorphic oracle (bind-equal => key-equal) with Python own binding as the reference; thorough tier adds a coverage-guided (atheris/libFuzzer) campaign over the same strategy and oracle'),
    'C10': ('exploration', 'pairs of calls whose bound arguments differ must give different keys under every information-preserving keymap and evaluate separately; typed twins (1/1.0/True) separated when typed=True; hurtful string alphabet', 'lossy keymaps (hash(None), flat without sentinel on *args signatures) excluded by the property wording; D3 listed as open known finding', 'property-based testing (Hypothesis): generated signatures and differing binding pairs; metamorphic oracle (bind-different => key-different) + differential call oracle; thorough tier adds a coverage-guided (atheris/libFuzzer) campaign over the same strategy and oracle'),
    'C11': ('exploration', 'independent selector model for ignore specs (names, indices, *, **, self): pairs differing only in ignored positions share a key and one evaluation; pairs differing elsewhere behave exactly as without ignore', 'index selectors not mixed with an ignored instance (shift direction unspecified)', 'property-based testing (Hypothesis): generated signatures x ignore specs x call pairs; reference selector model + metamorphic comparison with ignore=(); thorough tier adds a coverage-guided (atheris/libFuzzer) campaign over the same strategy and oracle'),
    'C12': ('exploration', 'key under tol/deep equals key without tol on independently rounded arguments; the function receives the original objects; valid calls never raise; standalone rounding decorators against the same reference rounder', 'tol in [-12, 12]; nan excluded; built-in round is the scalar primitive on both sides', 'property-based testing (Hypothesis): generated nested argument structures and boundary-straddling pairs; reference-rounder differential oracle; thorough tier adds a coverage-guided (atheris/libFuzzer) campaign over the same strategy and oracle'),
    'C19': ('exploration', 'isvalid/validate compared with really calling a side-effect-free stub: functions, bound methods, classmethods, callable instances and 0-2 layer partials over each; signatures with defaults, *args, keyword-only parameters, **kw; near-arity and arbitrary argument lists; body never runs during validation', 'positional-only parameters and builtins outside the statement', 'property-based testing (Hypothesis): generated signatures x callable kinds x partial layers x argument lists; differential oracle (the interpreter own binding, observed by calling the stub); thorough tier adds a coverage-guided (atheris/libFuzzer) campaign over the same strategy and oracle'),
    'C03': ('exploration', 'dict reference model stepped in lock-step with two archives stored side by side and a copy: 13 archive configurations x direct / behind a cache, 29 operation kinds incl. stores that cannot be encoded; full contents, len, keys, membership and == compared after every step', 'alias-free key pools for directory archives (aliasing, slash keys and source-text poison values are open known findings, probed on every run); popitem / iteration order as validity predicates', 'property-based testing (Hypothesis, stratified over archive configuration x direct/cached): generated operation sequences; model-based differential oracle (Python dict) with per-step full-state comparison'),
    'C08': ('exploration', 'two-dict + flag model of cache / attached archive / parked archive stepped against klepto cache over 12 archive kinds: cache ops, direct archive ops (also on parked and replaced archives), dump/load/sync keyed and unkeyed, archived on/off/query, open, archive=, drop; cache, every archive ever attached, archived() and identity of cache.archive compared after every step', 'str keys and scalar values only (accepted by every codec)', 'property-based testing (Hypothesis, stratified over archive kind; half of the histories start from a constructed conflict or off..mutate..on sandwich): model-based oracle written from the property statement, full-state comparison after every step'),
    'C04': ('exploration', 'dict model of store-time deep copies vs what every reader placement sees (writer handle, new handle, forked process, second interpreter with another hash seed and bytecode caching on, a handle that interpreter kept open) for writers in this process, in forked children that exit, or in a separate interpreter; 10 persistent configurations; rebuild paths (copy from state, dill round trip, cached re-open + load, pickled cache wrapper) and re-decoration sessions served from the archive', 'worker interpreters run with python default bytecode caching; values restricted to each codec domain; sqlite handles do not pickle', 'property-based testing (Hypothesis, stratified over persistent configuration + a session stratum): generated write histories x writer/reader process placements executed with real forked processes and worker interpreters; model-based round-trip oracle (type-exact)'),
    'C17': ('exploration', 'repr(key) of three spellings of one call computed in three interpreters with hash seeds 0 / 1 / 4242 must be byte-identical for every session-stable keymap (raw, string, pickle, every advertised hashlib algorithm; flat, typed, sentinel variants) via f.key and klepto.keygen; writer/reader session pairs on 7 persistent archives: the later session (other seed, other spellings) answers every call without evaluating', 'inputs whose own repr/pickle differs between interpreters are discarded and counted; sets/frozensets not generated', 'property-based testing (Hypothesis): generated signatures x bindings x spellings x keymaps evaluated in three real worker interpreters with different PYTHONHASHSEED; differential oracle between interpreters + session round-trip oracle'),
    'C13': ('fault_enumeration', 'for each generated (prior state, operation) on 10 persistent archive configurations, EVERY crash point of the real I/O sequence is enumerated: the operation runs in a forked child under a libc interposition shim, is killed before its k-th mutating call for all k (plus partial writes), and a new process must open and read the archive and see each touched key old-or-new, untouched keys unchanged and no phantom key', 'process kill, not power loss; crash points are libc calls under the archive root; one operation per experiment; enumeration over k complete per (state, operation), the (state, operation) pairs themselves are sampled', 'fault injection driven by property-based generation (Hypothesis, stratified over configuration): generated prior histories and operations x exhaustive enumeration of kill points at libc-call granularity via an LD_PRELOAD shim; old-or-new oracle evaluated in a fresh process'),
    'C14': ('exploration', 'two or three real processes (own handles, own sqlite connections) run one archive operation each under a libc interposition shim in step mode: the harness grants one file-system call at a time, so every explored interleaving is deterministic and replayable; per case all atomic placements of each process at each event boundary of the other are enumerated, plus generated fine-grained interleavings; reader observations are judged by validity predicates (keys ever stored, values stored for that key, present-throughout keys found, complete earlier/later dictionary for the single-file archive) and the final contents by a fresh process', 'schedules between libc calls, sequentially consistent file semantics; fair finite schedules; same-key writers, deleters and two writers on a single-file archive are outside the statement', 'property-based testing over schedules (Hypothesis, stratified over configuration): generated operation sets and interleavings executed with real forked processes whose schedule the harness owns (LD_PRELOAD step mode); validity-predicate oracle per observation + final-state oracle'),
    'C05': ('exploration',
            'generated histories over all 12 decorator classes x maxsize spellings (positional/keyword, 0, None, 1..6) x purge x 18 backends; per-call size predicate taken from the property statement, also for raising calls, after resets and with an archive attached later; thorough tier adds a bounded-exhaustive sweep (all 7^5 histories x 88 configurations); finds violations, cannot prove absence',
            'sizes observed via len(f.__cache__()) and f.info().size; bounded history length (<=60 ops) and pool size (<=8 keys)',
            'property-based testing (Hypothesis): generated call/load/dump/clear histories, per-step invariant oracle'),
}

PENDING_REASON = 'check not built yet (work in progress in this session; see DESIGN.md section 6)'


def main():
    checks = []
    for p in ALL:
        if p not in CHECKS:
            continue
        level, text, note, tech = CHECKS[p]
        checks.append({
            'property_id': p,
            'quick_cmd': './run.py %s --tier quick' % p,
            'thorough_cmd': './run.py %s --tier thorough' % p,
            'evidence_file': '/verif/evidence/%s.json' % p,
            'replay_cmd_template': './run.py %s --replay {path}' % p,
            'engine': 'run.py',
            'level_claimed': {'category': level, 'text': text, 'design_ref': 'DESIGN.md section 3 %s' % p},
            'level_note': note,
            'technique': tech,
        })
    man = {
        'version': 1,
        'setup_cmd': "/venv/bin/python -c 'import hypothesis' 2>/dev/null || /venv/bin/pip install --no-index --find-links /opt/veriftools/wheels hypothesis; /venv/bin/python /verif/tools/build_shim.py || true; /venv/bin/python -c 'import sys; sys.path.insert(0, \"/verif/.deps\"); import atheris' 2>/dev/null || /venv/bin/pip install -q --no-index --find-links /opt/veriftools/wheels --target /verif/.deps atheris || true",
        'hooks': {
            'guard': 'KLEPTO_VERIF',
            'enable': 'no source hooks: all observation is from outside (public wrapper attributes, libc interposition shim, worker processes); the guard variable is not read by /repo',
            'baseline_off_cmd': 'cd /repo && /venv/bin/python -m pytest -ra -q -p no:cacheprovider --timeout=900 --continue-on-collection-errors',
            'source_commits': [],
            'add_only': True,
        },
        'engines': [{
            'name': 'run.py', 'path': '/verif/run.py', 'serves_properties': sorted(CHECKS),
            'kind_free_text': 'Hypothesis-driven property-based testing (case-as-JSON, sharded over 16 cores), reference-model / per-step predicate oracles, known-findings attribution (trigger AND anomaly), replay files, libc-interposition shim for crash points and schedules'},
            {'name': 'fuzz.py', 'path': '/verif/tools/fuzz.py', 'serves_properties': ['C09', 'C10', 'C11', 'C12', 'C19'],
             'kind_free_text': 'coverage-guided campaign (libFuzzer through atheris, klepto instrumented) over the same Hypothesis strategies and oracles via fuzz_one_input; run by the thorough tier of the pure-python key / rounding / validation checks'}],
        'checks': checks,
        'not_applicable': [{'property_id': p, 'reason': PENDING_REASON} for p in ALL if p not in CHECKS],
        'notes': 'Genuine defects repaired in /repo as "fix:" commits and those recorded as findings are listed in /verif/known_findings.json; DESIGN.md section 7 has the mutant table.',
    }
    with open(os.path.join(HERE, 'MANIFEST.json'), 'w') as f:
        json.dump(man, f, indent=1)
    print('MANIFEST.json: %d checks, %d not_applicable' % (len(checks), len(man['not_applicable'])))


if __name__ == '__main__':
    main()
