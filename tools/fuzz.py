#!/venv/bin/python
"""Coverage-guided campaign for one check (not a registered check; an optional deeper search).

  fuzz.py Cxx [--seconds N] [--stratum SUBSTR] [--runs N]

libFuzzer (atheris) drives the SAME Hypothesis strategy and the SAME oracle as the registered check through
`hypothesis test.hypothesis.fuzz_one_input`: the byte string is the source of every generator choice, and
coverage of the klepto package (instrumented at import) guides the mutation.  An unknown discrepancy stops
the campaign; the failing case is written as a replay file under replays/ and reproduces with
`run.py Cxx --replay FILE`.  Exit 0 = nothing found within the budget, 1 = violation (VIOLATION line), 2 = harness error.
Only useful for the pure-python key / rounding / validation checks (C09 C10 C11 C12 C19): the archive and process
checks spend their time in I/O, where coverage guidance buys nothing.
"""
import os, sys, json, argparse, importlib

HERE = os.path.dirname(os.path.dirname(os.path.abspath(__file__)))
sys.path.insert(0, HERE)
sys.path.insert(0, os.path.join(HERE, '.deps'))
os.environ.setdefault('PYTHONHASHSEED', '0')


def main():
    ap = argparse.ArgumentParser()
    ap.add_argument('prop')
    ap.add_argument('--seconds', type=int, default=60)
    ap.add_argument('--runs', type=int, default=-1)
    ap.add_argument('--stratum', default='')
    a = ap.parse_args()
    try:
        import atheris
    except ImportError:
        sys.stderr.write('HARNESS-ERROR: atheris not installed (pip install --no-index --find-links /opt/veriftools/wheels --target /verif/.deps atheris)\n')
        sys.exit(2)
    from harness import core
    with atheris.instrument_imports(include=['klepto']):
        core.ensure_klepto()
        import klepto.safe, klepto.keymaps, klepto.rounding, klepto._inspect, klepto.crypto  # noqa: F401
    from hypothesis import given, settings, HealthCheck, strategies as st
    mod = importlib.import_module('props.' + a.prop.lower())
    strata = mod.strata('thorough') if hasattr(mod, 'strata') else [('all', mod.strategy('thorough'))]
    strata = [(e[0], e[1]) for e in strata if a.stratum in e[0]]
    strat = st.one_of(*[s for _, s in strata])
    run = core.Run(mod.PROP, mod.LEVEL, mod.RULE, tier='thorough')
    triggers = getattr(mod, 'TRIGGERS', {})
    state = {'n': 0, 'fail': None}

    @given(case=strat)
    @settings(database=None, deadline=None, suppress_health_check=list(HealthCheck))
    def test(case):
        discrs, nt, classes = mod.run_case(case)
        state['n'] += 1
        unknown = [d for d in discrs if run.findings.attribute(d, case, triggers) is None]
        if unknown:
            state['fail'] = (case, unknown)
            raise AssertionError(unknown[0].sig)

    def one_input(data):
        try:
            test.hypothesis.fuzz_one_input(data)
        except AssertionError:
            case, unknown = state['fail']
            path = run.write_replay(case, unknown, tag='fuzz')
            print('  discrepancy: %s\n  detail: %s' % (unknown[0].sig, str(unknown[0].detail)[:1200]))
            print('VIOLATION property=%s replay=%s' % (mod.PROP, path))
            sys.stdout.flush()
            os._exit(1)

    argv = [sys.argv[0], '-max_total_time=%d' % a.seconds, '-runs=%d' % a.runs, '-max_len=4096', '-print_final_stats=1',
            '-seed=%d' % (core.env_seed() or 1)]
    atheris.Setup(argv, one_input)
    try:
        atheris.Fuzz()
    finally:
        print('fuzz %s: %d cases executed, no violation' % (mod.PROP, state['n']))


if __name__ == '__main__':
    main()
