#!/venv/bin/python
"""Confirm and store seeded changes delivered by a sub-agent in its scratch worktree (not a registered check).

  ingest.py Cxx [--wt /tmp/wt_Cxx] [--tag n]

For N in 1, 2: on a clean worktree demoN must pass; with mutN.diff applied the unedited test-suite must still show 46 passed
and demoN must fail; after restoring the tree demoN passes again.  Confirmed changes are stored as
seeded/<Cxx>_<tag>N/{patch.diff, demo.py, meta.json}.
"""
import os, sys, json, subprocess, shutil, argparse

HERE = os.path.dirname(os.path.dirname(os.path.abspath(__file__)))


def sh(cmd, cwd=None, env=None, timeout=1200):
    r = subprocess.run(cmd, cwd=cwd, env=env, capture_output=True, text=True, timeout=timeout)
    return r.returncode, (r.stdout + r.stderr)


def main():
    ap = argparse.ArgumentParser()
    ap.add_argument('prop')
    ap.add_argument('--wt', default=None)
    ap.add_argument('--tag', default='n')
    a = ap.parse_args()
    prop = a.prop.upper()
    wt = a.wt or '/tmp/wt_%s' % prop
    out = os.path.join(wt, 'out')
    notes = {}
    if os.path.exists(os.path.join(out, 'notes.json')):
        try:
            notes = json.load(open(os.path.join(out, 'notes.json')))
        except Exception as e:
            print('notes.json unreadable: %r' % e)
    env = dict(os.environ, PYTHONPATH=wt, PYTHONDONTWRITEBYTECODE='1')
    env.pop('LD_PRELOAD', None)
    sh(['git', 'checkout', '--', 'klepto'], cwd=wt)
    for n in (1, 2):
        diff = os.path.join(out, 'mut%d.diff' % n)
        demo = os.path.join(out, 'demo%d.py' % n)
        if not (os.path.exists(diff) and os.path.exists(demo)):
            print('%s mut%d: missing deliverable' % (prop, n))
            continue
        res = {}
        rc, o = sh(['/venv/bin/python', demo], cwd='/tmp', env=env)
        res['demo_clean'] = rc
        rc, o = sh(['git', 'apply', '--check', diff], cwd=wt)
        if rc != 0:
            print('%s mut%d: diff does not apply: %s' % (prop, n, o[-300:]))
            continue
        sh(['git', 'apply', diff], cwd=wt)
        try:
            rc, o = sh(['/venv/bin/python', '-m', 'pytest', '-q', '-p', 'no:cacheprovider', '--timeout=900', '--continue-on-collection-errors', 'klepto/tests'], cwd=wt, env=env)
            last = o.strip().splitlines()[-1] if o.strip() else ''
            res['tests'] = last
            rc, o = sh(['/venv/bin/python', demo], cwd='/tmp', env=env)
            res['demo_mut'] = rc
            res['demo_mut_tail'] = o.strip()[-300:]
            rc, o = sh(['git', 'diff', '--stat'], cwd=wt)
            res['diffstat'] = o.strip().splitlines()[-1] if o.strip() else ''
        finally:
            sh(['git', 'checkout', '--', 'klepto'], cwd=wt)
            for junk in ('foo.pkl',):
                try:
                    os.remove(os.path.join(wt, junk))
                except OSError:
                    pass
        rc, o = sh(['/venv/bin/python', demo], cwd='/tmp', env=env)
        res['demo_clean_again'] = rc
        ok = res['demo_clean'] == 0 and res['demo_clean_again'] == 0 and res['demo_mut'] != 0 and '46 passed' in res.get('tests', '')
        print('%s mut%d: %s  %s' % (prop, n, 'CONFIRMED' if ok else 'REJECTED', json.dumps(res)[:400]))
        if not ok:
            continue
        name = '%s_%s%d' % (prop, a.tag, n)
        d = os.path.join(HERE, 'seeded', name)
        os.makedirs(d, exist_ok=True)
        shutil.copy(diff, os.path.join(d, 'patch.diff'))
        shutil.copy(demo, os.path.join(d, 'demo.py'))
        note = notes.get('mut%d' % n, {})
        head = subprocess.check_output(['git', 'rev-parse', '--short', 'HEAD'], cwd=wt, text=True).strip()
        meta = {'property': prop, 'breaks_property': prop, 'summary': note.get('summary', ''), 'needs_to_manifest': note.get('needs_to_manifest', ''),
                'files_changed': note.get('files_changed', []), 'how_verified': note.get('how_verified', ''), 'made_against': head,
                'author': 'independent sub-agent given only the property text and a scratch worktree',
                'confirmed_by_me': {'ran': 'tools/ingest.py in scratch worktree %s at %s: demo on clean tree, git apply, unedited test-suite, demo, git checkout, demo' % (wt, head),
                                    'result': res}}
        json.dump(meta, open(os.path.join(d, 'meta.json'), 'w'), indent=1)


if __name__ == '__main__':
    main()
