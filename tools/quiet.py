#!/venv/bin/python
"""Flake control (not a registered check): run every quick check on the unchanged tree at several seeds in fresh processes;
any exit code other than 0 is reported.   quiet.py [--seeds 1,2,3] [--jobs 3] [--checks C01,C02]"""
import os, sys, subprocess, argparse, tempfile, shutil, time
from concurrent.futures import ThreadPoolExecutor
HERE = os.path.dirname(os.path.dirname(os.path.abspath(__file__)))


def one(job):
    c, s = job
    out = tempfile.mkdtemp(prefix='kvquiet_')
    t0 = time.time()
    try:
        env = dict(os.environ, VERIF_SEED=str(s), VERIF_OUT=out, PYTHONDONTWRITEBYTECODE='1')
        p = subprocess.run([os.path.join(HERE, 'run.py'), c, '--tier', 'quick'], cwd=HERE, env=env, capture_output=True, text=True)
        tail = (p.stdout + p.stderr).strip().splitlines()[-1][:160] if (p.stdout + p.stderr).strip() else ''
        return c, s, p.returncode, time.time() - t0, tail
    finally:
        shutil.rmtree(out, ignore_errors=True)


def main():
    ap = argparse.ArgumentParser()
    ap.add_argument('--seeds', default='1,2,3,4,5')
    ap.add_argument('--jobs', type=int, default=3)
    ap.add_argument('--checks', default=','.join('C%02d' % i for i in range(1, 21)))
    a = ap.parse_args()
    jobs = [(c, int(s)) for s in a.seeds.split(',') for c in a.checks.split(',')]
    bad = 0
    with ThreadPoolExecutor(a.jobs) as ex:
        for c, s, rc, dt, tail in ex.map(one, jobs):
            if rc != 0:
                bad += 1
            print('%s seed=%d exit=%d %4.0fs  %s' % (c, s, rc, dt, tail if rc else ''))
            sys.stdout.flush()
    print('non-zero exits: %d of %d' % (bad, len(jobs)))


if __name__ == '__main__':
    main()
