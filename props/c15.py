"""C15 statistics are an exact account of what happened."""
from harness import cachehist as H, cachegen as G
from harness.core import Discrepancy
from props._cc import has, base_classes, outcome

PROP = 'C15'
LEVEL = 'exploration'
RULE = ("cases = all 12 decorators x maxsize x purge x backend x history of calls (some raising), load/dump (keyed or not), clear, "
        "clear(keepstats=True), archive toggles, direct archive writes and deletions, the archive replaced through f.archive(obj). Oracle per completed call: exactly one of hit/miss/load moves by one, "
        "chosen from the observed pre-state (resident => hit; else archived and in archive => load; else miss and exactly one evaluation); "
        "raising calls move nothing; hit+miss+load == completed calls since last reset; size == resident entries; maxsize == configured bound; "
        "re-entrant functions (calling their own decorated self, also with the same arguments) keep miss == evaluations and the sum == completed calls; clear() => empty + zeros; clear(keepstats) => empty + unchanged. non-trivial = history shows hit, miss and load and at least one reset; "
        "distinct = (class, backend family, outcome/reset sequence)")
ASSUMPTIONS = ['pre-state observed through f.__cache__() and its archive; f.key() identifies the call (C18 checks key() separately)']

N = {'quick': 450, 'thorough': 3000}
SHARDS = {'quick': 4, 'thorough': 16}


def _with_scenario(pair):
    case, pick = pair
    if pick and H.backend_archived(case['backend']) and not case.get('attach_later'):
        # half of the archived cases start with a constructed miss / hit / dump / clear / load / reset sequence, so that all three
        # outcomes and a reset occur without depending on luck; the generated history follows
        pre = [['call', 0, 0, 0], ['call', 0, 1, 0], ['call', 1, 0, 0], ['dump'], ['clear' if pick == 1 else 'clearkeep'], ['call', 0, 0, 0], ['call', 1, 2, 0]]
        case = dict(case, ops=pre + list(case['ops']))
    return case


def strata(tier):
    from hypothesis import strategies as st
    from props import c16
    # safe decorators called with arguments no key can be built for (or whose key is unhashable): the call is a plain evaluation and
    # must be counted as exactly one miss
    degraded = [('degraded/' + n, s) for n, s in c16.hostile_strata(tier)[::3]]
    reent = [('reentrant/' + a, reentrant_cases(a)) for a in H.ALGOS]
    return degraded + reent + [(n, st.tuples(s, st.sampled_from([0, 1, 2])).map(_with_scenario)) for n, s in _strata(tier)]


def reentrant_cases(algo):
    """functions that call their own decorated self while being evaluated (recursion, also on the SAME arguments, bottoming out at depth 2)"""
    from hypothesis import strategies as st
    return st.fixed_dictionaries({
        'part': st.just('reent'), 'module': st.sampled_from(['std', 'safe']), 'algo': st.just(algo), 'maxsize': st.sampled_from([1, 2, 3]),
        'purge': st.booleans(), 'arch': st.sampled_from(['none', 'dict', 'dir']),
        'plan': st.lists(st.lists(st.integers(0, 3), max_size=2), min_size=4, max_size=4),
        'calls': st.lists(st.integers(-2, 3), min_size=1, max_size=12)})      # -1: clear(), -2: clear(keepstats=True)


def run_reentrant(case):
    import os
    import klepto.archives as KA
    out = []
    algo = case['algo']
    classes = ['part:reent', 'module:' + case['module'], 'eff_algo:' + algo, 'reent_arch:' + case['arch']]
    st = {'ev': 0, 'done': 0, 'depth': 0, 'nested_same': 0, 'nested': 0}
    plan = case['plan']
    box = {}

    def body(x):
        st['ev'] += 1
        if st['depth'] < 2:
            st['depth'] += 1
            try:
                for y in plan[x]:
                    box['f'](y)
                    st['done'] += 1
                    st['nested'] += 1
                    st['nested_same'] += (y == x)
            finally:
                st['depth'] -= 1
        return ('r', x)
    with H.Scratch() as sc:
        kw = {}
        if case['arch'] == 'dict':
            kw['cache'] = KA.dict_archive('reent', cached=True)
        elif case['arch'] == 'dir':
            kw['cache'] = KA.dir_archive(os.path.join(sc.path, 'reent'), cached=True, serialized=True)
        if algo not in ('no', 'inf'):
            kw.update(maxsize=case['maxsize'], purge=case['purge'])
        f = box['f'] = H.decorator_class(case['module'], algo)(**kw)(body)
        for i, x in enumerate(case['calls']):
            if x < 0:
                f.clear(keepstats=(x == -2))
                if x == -1:
                    st['ev'] = st['done'] = 0
                continue
            try:
                r = f(x)
            except Exception as e:
                out.append(Discrepancy('C15/reentrant/%s/call-raised/%s' % (algo, H.exc_sig(e)), 'call %d f(%d) plan %r: %r' % (i, x, plan, e)))
                break
            st['done'] += 1
            inf = f.info()
            if r != ('r', x):
                out.append(Discrepancy('C15/reentrant/%s/wrong-result' % algo, 'f(%d) returned %r' % (x, r)))
            elif inf.miss != st['ev']:
                out.append(Discrepancy('C15/reentrant/%s/miss-is-not-evaluations' % algo, 'after call %d of %r (plan %r): miss=%d, the function was evaluated %d times since the last reset' % (
                    i, case['calls'], plan, inf.miss, st['ev'])))
            elif inf.hit + inf.miss + inf.load != st['done']:
                out.append(Discrepancy('C15/reentrant/%s/sum-not-completed-calls' % algo, 'after call %d of %r (plan %r): hit+miss+load=%d+%d+%d, %d calls completed since the last reset' % (
                    i, case['calls'], plan, inf.hit, inf.miss, inf.load, st['done'])))
            elif inf.size != len(f.__cache__()):
                out.append(Discrepancy('C15/reentrant/%s/size-wrong' % algo, 'info().size=%r, %d resident' % (inf.size, len(f.__cache__()))))
            if out:
                break
    if st['nested']:
        classes.append('reentrant_call')
    if st['nested_same']:
        classes.append('reentrant_same_key')
    nt = ('reent', case['module'], algo, case['arch'], case['maxsize'], tuple(map(tuple, plan)), tuple(case['calls'])) if st['nested_same'] else None
    return out, nt, classes


def check_degraded(case, tr):
    out = []
    seen = set()
    if tr.setup_exc is not None:
        return out, seen
    algo = H.effective_algo(case)
    for i, s in enumerate(tr.steps):
        if s.kind != 'call' or s.exc is not None or s.pre_info is None or s.post_info is None:
            continue
        d = [s.post_info[j] - s.pre_info[j] for j in range(3)]
        usable = s.key_exc is None
        if usable:
            try:
                hash(s.key)
            except BaseException:
                usable = False
        if not usable:
            seen.add('degraded')
            if d != [0, 1, 0]:
                out.append(Discrepancy('C15/safe/%s/degraded-call-not-counted-as-one-miss' % algo, 'step %d: call %r %r evaluated %d time(s); hit/miss/load moved by %r' % (
                    i, s.args, s.kwds, s.evals, d)))
                return out, seen
        elif sorted(d) != [0, 0, 1]:
            out.append(Discrepancy('C15/safe/%s/not-exactly-one-counter' % algo, 'step %d: hit/miss/load moved by %r' % (i, d)))
            return out, seen
    return out, seen


def _strata(tier):
    return G.strata_grid(
        maxsizes=(2, 1, 3, 5, 0, None),
        weights={'call': 14, 'burst': 1, 'load': 2, 'dump': 1, 'dumpk': 1, 'loadk': 1, 'clear': 2, 'clearkeep': 2,
                 'arch_off': 1, 'arch_on': 1, 'awrite': 2, 'arch_query': 1, 'reattach': 2, 'adel': 1},
        max_ops=30 if tier == 'quick' else 60, pool=(3, 7), attach_later_pct=12, prefill_pct=30,
        raising_pct=12)


def prepare(case):
    """mark some pool entries as raising (deterministically from the case)"""
    return case


def check_trace(case, tr):
    out = []
    ev = []
    seen = set()
    if tr.setup_exc is not None:
        out.append(Discrepancy('C15/decorate/%s' % H.exc_sig(tr.setup_exc), repr(tr.setup_exc)))
        return out, ev, seen
    ms = H.effective_maxsize(case)
    algo = H.effective_algo(case)
    completed = 0
    for i, s in enumerate(tr.steps):
        pi, qi = s.pre_info, s.post_info
        if s.kind == 'call':
            if s.exc is not None:
                if s.expected_exc is not None and s.exc is s.expected_exc:
                    if qi[:3] != pi[:3]:
                        out.append(Discrepancy('C15/%s/raising-call-counted' % algo, 'step %d: %r -> %r' % (i, pi, qi)))
                        return out, ev, seen
                    ev.append('x'); seen.add('raise')
                    continue
                out.append(Discrepancy('C15/call/raised/%s' % H.exc_sig(s.exc), 'step %d: %r' % (i, s.exc)))
                return out, ev, seen
            oc = outcome(s, algo)
            idx = {'hit': 0, 'miss': 1, 'load': 2}[oc]
            exp = list(pi[:3]); exp[idx] += 1
            if list(qi[:3]) != exp:
                out.append(Discrepancy('C15/%s/%s-miscounted' % (algo, oc), 'step %d: pre-state says %s; counters %r -> %r' % (i, oc, pi[:3], qi[:3])))
                return out, ev, seen
            if (oc == 'miss') != (s.evals == 1) or s.evals > 1:
                out.append(Discrepancy('C15/%s/evaluations-vs-outcome' % algo, 'step %d: outcome %s but %d evaluations' % (i, oc, s.evals)))
                return out, ev, seen
            completed += 1
            ev.append(oc[0]); seen.add(oc)
        elif s.kind == 'clear':
            if s.exc is None:
                if qi[:3] != (0, 0, 0) or len(s.post_mem) != 0:
                    out.append(Discrepancy('C15/%s/clear-not-reset' % algo, 'step %d: after clear(): info=%r resident=%d' % (i, qi, len(s.post_mem))))
                    return out, ev, seen
                completed = 0
                ev.append('C'); seen.add('reset')
        elif s.kind == 'clearkeep':
            if s.exc is None:
                if qi[:3] != pi[:3] or len(s.post_mem) != 0:
                    out.append(Discrepancy('C15/%s/clearkeep-wrong' % algo, 'step %d: after clear(keepstats=True): %r -> %r resident=%d' % (i, pi, qi, len(s.post_mem))))
                    return out, ev, seen
                ev.append('K'); seen.add('keep')
        else:
            if s.exc is None and qi[:3] != pi[:3]:
                out.append(Discrepancy('C15/%s/mgmt-op-moved-counters' % algo, 'step %d %r: %r -> %r' % (i, s.op, pi, qi)))
                return out, ev, seen
            ev.append(s.kind[:2])
        if qi[4] != len(s.post_mem):
            out.append(Discrepancy('C15/%s/size-wrong' % algo, 'step %d: info().size=%r, %d resident' % (i, qi[4], len(s.post_mem))))
            return out, ev, seen
        if qi[3] != ms:
            out.append(Discrepancy('C15/%s/maxsize-wrong' % algo, 'step %d: info().maxsize=%r, configured %r' % (i, qi[3], ms)))
            return out, ev, seen
        if sum(qi[:3]) != completed:
            out.append(Discrepancy('C15/%s/sum-not-completed-calls' % algo, 'step %d: hit+miss+load=%d, completed calls since reset=%d' % (i, sum(qi[:3]), completed)))
            return out, ev, seen
    return out, ev, seen


def run_case(case):
    if case.get('part') == 'reent':
        return run_reentrant(case)
    if case.get('part') == 'b':
        tr = H.run_history(case)
        discrs, seen = check_degraded(case, tr)
        classes = base_classes(case) + ['seen:' + x for x in seen]
        km = case.get('keymap')
        nt = ('degraded', case['algo'], case['backend'], km and (km['cls'], km['flat'], km.get('opt')), len(case['ops'])) if 'degraded' in seen else None
        return discrs, nt, sorted(set(classes))
    tr = H.run_history(with_raising(case))
    discrs, ev, seen = check_trace(case, tr)
    classes = base_classes(case) + ['seen:' + x for x in seen]
    nt = None
    if {'hit', 'miss', 'load'} <= seen and ('reset' in seen or 'keep' in seen):
        nt = (case['module'], case['algo'], repr(case['maxsize']), case['backend'].split('_')[:2], ev)
        classes.append('all_three_outcomes_and_reset')
    return discrs, nt, sorted(set(classes))


def with_raising(case):
    return case


def extra_passes(run, tier, shard, nshards):
    from props._cc import exhaustive_sweep
    exhaustive_sweep(run, tier, shard, nshards, lambda case, tr: check_trace(case, tr)[0])


REQUIRED_CLASSES = ['reentrant_call', 'reentrant_same_key', 'seen:degraded', 'seen:hit', 'seen:miss', 'seen:load', 'seen:reset', 'seen:keep', 'seen:raise', 'all_three_outcomes_and_reset',
                    'eff_algo:no', 'eff_algo:inf', 'module:safe']
TRIGGERS = {}
