"""C09 key canonicalisation: equivalent calls map to one key."""
import copy, functools
from hypothesis import strategies as st
from harness import cachehist as H, cachegen as G, values as V, sigs as S
from harness.core import Discrepancy

PROP = 'C09'
LEVEL = 'exploration'
RULE = ("cases = generated signature (0-3 required, 0-3 defaulted, *args, 0-2+0-2 keyword-only, **kw) x kind {function, method via instance, functools.partial over a bound method of a real class, "
        "functools.partial fixing leading positionals} x one binding x TWO spellings of it (positional prefix length, keyword order, defaults "
        "spelled or omitted) x keymap {raw,hash(None/md5/sha1),string(None/repr),pickle(None/pickle/dill)} x flat x typed x sentinel x path "
        "{f.key, klepto.keygen, klepto._keygen+keymap, real calls} x optionally an ignore specification (names, '*', '**') in effect. Oracle: inspect.signature().bind(...)+apply_defaults equal => keys equal, and for "
        "real calls the second spelling is not evaluated (log grows by one, one hit). non-trivial = the spellings differ in more than keyword order and "
        "the signature has a default, a keyword-only parameter or **kw with >= 2 extra keywords; distinct = (signature shape, kind, keymap, path, "
        "spelling shapes)")
ASSUMPTIONS = ['both spellings pass the very same objects', 'positional-only parameters are not generated (klepto predates them; no property lists them)']

N = {'quick': 2500, 'thorough': 20000}
FUZZ_SECONDS = 180      # thorough tier: coverage-guided campaign over the same strategy and oracle (tools/fuzz.py)
SHARDS = {'quick': 4, 'thorough': 16}

KEYMAPS = []
for cls, opts in (('keymap', [None]), ('hashmap', [None, 'md5', 'sha1']), ('stringmap', [None, 'repr']), ('picklemap', [None, 'pickle', 'dill'])):
    for opt in opts:
        for flat in (True, False):
            for typed in (False, True):
                for sentinel in ((False, True) if flat else (False,)):
                    if cls == 'hashmap' and opt is None and not flat:
                        continue      # hash((args, dict)) raises for every call: no key is ever produced (unusable configuration, noted in DESIGN)
                    KEYMAPS.append({'cls': cls, 'opt': opt, 'flat': flat, 'typed': typed, 'sentinel': sentinel})

# chained keymaps (klepto.keymaps '+'): the call is encoded by the base keymap, the key is then re-encoded by another one
# (md5 of the pickle, pickle of the string, string of the raw tuple ...)
_THEN = [{'cls': 'hashmap', 'opt': 'md5', 'flat': True, 'typed': False, 'sentinel': False}, {'cls': 'stringmap', 'opt': 'repr', 'flat': True, 'typed': False, 'sentinel': False},
         {'cls': 'picklemap', 'opt': None, 'flat': True, 'typed': False, 'sentinel': False}, {'cls': 'hashmap', 'opt': 'sha1', 'flat': False, 'typed': False, 'sentinel': False}]
for _i, _base in enumerate([k for k in KEYMAPS if k['cls'] in ('picklemap', 'stringmap', 'keymap') and k['opt'] in (None, 'repr', 'dill')]):
    KEYMAPS.append(dict(_base, then=_THEN[_i % len(_THEN)]))

PATHS = ['fkey', 'keygen', '_keygen', 'call']


@st.composite
def cases(draw, path):
    sig = draw(S.signatures())
    # 'partial_bound': functools.partial over a BOUND method of a real class, fixing leading positionals (the instance is bound, the presets follow it)
    kind = draw(st.sampled_from(['function', 'function', 'method', 'partial', 'partial_bound', 'bound']))      # 'bound': the cached callable is a bound-method OBJECT (cache(...)(instance.method))
    vals = V.hashables(max_depth=1, special_floats=False)
    nfix = 0
    if kind in ('partial', 'partial_bound'):
        nfix = draw(st.integers(0, len(sig['req'])))
    pkw = []
    if kind in ('partial', 'partial_bound'):
        # the partial may also override keyword-only defaults and pre-set extra keywords
        for n, d in sig['kwopt']:
            if draw(st.booleans()):
                pkw.append([n, draw(vals)])
        if sig['varkw'] and draw(st.integers(0, 2)) == 0:
            pkw.append(['w', draw(vals)])
    # rounding tolerance: equivalent spellings must still share a key. Defaults that are not invariant under the rounding are
    # replaced by their rounded value in the main pass (open finding D19: klepto rounds what the caller passed but mixes in
    # defaults unrounded, so f(1) and f(1, <default>) get different keys); the probe case keeps such a default
    tol = draw(st.sampled_from([None, None, None, 0, 1]))
    deep = draw(st.booleans()) if tol is not None else False
    if tol is not None:
        # floats that round to NEGATIVE zero (-0.04 at one decimal): 0.0 == -0.0, but text / pickle / digest keys tell them apart, so every
        # spelling must round the same way
        vals = st.one_of(vals, vals, st.sampled_from([-0.0, -0.004, -0.04, -0.4, 0.04, -0.44]).map(lambda x: ['f', repr(x)]))
        sig = stabilise_defaults(sig, tol)
        pkw = [[n, stable_spec(v, tol)] for n, v in pkw]
    rest = rest_sig(sig, nfix, pkw)
    b = draw(S.bindings(rest, vals))
    # two arguments with EQUAL container values: one spelling passes the very same object for both, the other two distinct equal objects
    alias = None
    slots = [['named', i] for i in range(len(b.get('named', [])))] + [['xpos', i] for i in range(len(b.get('xpos', [])))] + \
            [['kwonly', i] for i in range(len(b.get('kwonly', [])))] + [['xkw', i] for i in range(len(b.get('xkw', [])))]
    if len(slots) >= 2 and draw(st.integers(0, 5)) == 0:
        alias = draw(st.permutations(slots))[:2]
        shared = draw(st.sampled_from([['t', [['i', 1], ['s', 'a']]], ['t', [['i', 0]]], ['t', [['t', [['i', 2]]], ['n']]]]))
        for kind_, i_ in alias:
            if kind_ == 'xpos':
                b[kind_][i_] = copy.deepcopy(shared)
            else:
                b[kind_][i_][1] = copy.deepcopy(shared)
    others = draw(st.lists(S.bindings(rest, vals), max_size=3))
    # an ignore specification (by name, '*', '**') in effect: equivalent spellings must still share a key, also when the ignored argument is a
    # default that one spelling omits and the other spells out
    ignore = None
    if draw(st.integers(0, 3)) == 0:
        names = [n for n in rest['req']] + [n for n, _ in rest['opt']] + list(rest['kwreq']) + [n for n, _ in rest['kwopt']] + [n for n, _ in pkw] + ['*', '**'] + S.XKW[:2]
        ignore = draw(st.lists(st.sampled_from(names), min_size=1, max_size=3, unique=True))
    km = draw(st.sampled_from(KEYMAPS))
    if path == 'call':
        # std caches need hashable keys; safe caches take anything
        module = 'safe' if (km['cls'] == 'keymap' and not km['flat']) else draw(st.sampled_from(['std', 'safe']))
    else:
        module = draw(st.sampled_from(['std', 'safe']))
    return {'sig': sig, 'kind': kind, 'nfix': nfix, 'fixed': [draw(vals) for _ in range(nfix)], 'pkw': pkw, 'binding': b, 'others': others,
            'form1': draw(st.integers(0, 255)), 'form2': draw(st.integers(0, 255)), 'keymap': km, 'path': path,
            'module': module, 'algo': draw(st.sampled_from(['inf', 'lru', 'lfu', 'mru', 'rr'] + H.DISPATCHED)), 'tol': tol, 'deep': deep, 'ignore': ignore, 'alias': alias}


def stable_spec(spec, tol):
    t = spec[0]
    if t in 'SF' and len(spec[1]) > 1:
        # deep rounding REBUILDS sets, which may change their iteration order (and so the text of repr-based keys): same root cause as D19
        # (what the caller passes is rounded / rebuilt, defaults and partial presets are mixed in as they are); kept out of defaults and presets
        return [t, [stable_spec(spec[1][0], tol)]]
    if t == 'f':
        return ['f', repr(round(float(spec[1]), tol))]
    if t in 'tlSF':
        return [t, [stable_spec(x, tol) for x in spec[1]]]
    if t == 'd':
        return ['d', [[k, stable_spec(v, tol)] for k, v in spec[1]]]
    return spec


def stabilise_defaults(sig, tol):
    s2 = dict(sig)
    s2['opt'] = [[n, stable_spec(d, tol)] for n, d in sig['opt']]
    s2['kwopt'] = [[n, stable_spec(d, tol)] for n, d in sig['kwopt']]
    return s2


def unstable_default(case):
    tol = case.get('tol')
    if tol is None:
        return False
    specs = [d for _, d in case['sig']['opt']] + [d for _, d in case['sig']['kwopt']] + [v for _, v in case.get('pkw', [])]
    return any(stable_spec(d, tol) != d for d in specs)


def rest_sig(sig, nfix, pkw):
    """the signature left after the partial fixed nfix leading positionals and the keywords pkw"""
    over = dict((n, v) for n, v in pkw)
    rest = dict(sig, req=sig['req'][nfix:])
    rest['kwopt'] = [[n, over.get(n, d)] for n, d in sig['kwopt']]
    return rest


def strata(tier):
    return [('path:' + p, cases(p)) for p in PATHS]


def build_target(case, log):
    """returns (callable to decorate / inspect, prefix args, function for the binding oracle)"""
    sig = case['sig']
    body = lambda named, va, vk: log.append(1) or ('r', len(log))
    if case['kind'] == 'method':
        fn = S.make_plain(S.with_self(sig), body)
        return fn, (S.Holder(),), fn
    if case['kind'] == 'bound':
        fn = S.make_plain(S.with_self(sig), body)
        S.Inst.f = fn             # removed again by run_case
        m = S.Inst(0, 3).f
        return m, (), m
    if case['kind'] == 'partial_bound':
        fn = S.make_plain(S.with_self(sig), body)
        S.Inst.f = fn             # removed again by run_case
        p = functools.partial(S.Inst(0, 3).f, *[V.build(s) for s in case['fixed']], **dict((n, V.build(v)) for n, v in case.get('pkw', [])))
        return p, (), p
    fn = S.make_plain(sig, body)
    if case['kind'] == 'partial':
        p = functools.partial(fn, *[V.build(s) for s in case['fixed']], **dict((n, V.build(v)) for n, v in case.get('pkw', [])))
        return p, (), p
    return fn, (), fn


def run_case(case):
    try:
        return _run_case(case)
    finally:
        if 'f' in S.Inst.__dict__:
            delattr(S.Inst, 'f')


def _run_case(case):
    import klepto
    out = []
    log = []
    target, prefix, oracle_fn = build_target(case, log)
    sig = case['sig']
    rest = rest_sig(sig, case['nfix'], case.get('pkw', []))
    others = [S.spell_full(rest, ob, 0) for ob in case.get('others', [])]
    others = [(prefix + oa, ok) for oa, ok in others if 'w' not in ok or not any(n == 'w' for n, _ in case.get('pkw', []))]
    spelled_preset = False
    built = {}
    built2 = built
    if case.get('alias'):
        (ka, ia), (kb, ib) = case['alias']
        bd = case['binding']
        sa = bd[ka][ia] if ka == 'xpos' else bd[ka][ia][1]
        sb = bd[kb][ib] if kb == 'xpos' else bd[kb][ib][1]
        obj = V.build(sa)
        built, built2 = {id(sa): obj, id(sb): obj}, {}       # spelling 1: one object in both places; spelling 2: two equal objects
    a1, k1 = S.spell_full(rest, case['binding'], case['form1'], built)
    a2, k2 = S.spell_full(rest, case['binding'], case['form2'], built2)
    # a keyword the partial presets and that lands in **kw (not a parameter of its own): the second spelling may repeat the preset explicitly
    kwnames = set(n for n, _ in sig['kwopt']) | set(sig['kwreq'])
    for n, v in case.get('pkw', []):
        if n not in kwnames and n not in k2 and n not in k1 and (case['form2'] // 64) % 2:
            k2 = dict(k2)
            k2[n] = V.build(v)
            spelled_preset = True
    a1, a2 = prefix + a1, prefix + a2
    if isinstance(oracle_fn, functools.partial):
        # what the underlying callable is really called with: the partial's presets, overridden by the caller's keywords
        b1 = S.bound(oracle_fn.func, tuple(oracle_fn.args) + tuple(a1), dict(oracle_fn.keywords or {}, **k1))
        b2 = S.bound(oracle_fn.func, tuple(oracle_fn.args) + tuple(a2), dict(oracle_fn.keywords or {}, **k2))
    else:
        b1, b2 = S.bound(oracle_fn, a1, k1), S.bound(oracle_fn, a2, k2)
    classes = ['path:' + case['path'], 'kind:' + case['kind'], 'others:%d' % len(others), 'partial_kw:%s' % bool(case.get('pkw')), 'keymap:%s%s' % (case['keymap']['cls'], '' if case['keymap']['flat'] else '-nonflat'),
               'typed:%s' % case['keymap']['typed']]
    if case.get('alias'):
        classes.append('aliased_arguments')
    if spelled_preset:
        classes.append('extra_keyword_preset_spelled_out')
    if b1 is None or b2 is None or not S.bound_equal(b1, b2):
        # generator soundness: both spellings must be valid and bind identically
        return [Discrepancy('C09/harness/spellings-not-equivalent', '%r %r vs %r %r' % (a1, k1, a2, k2))], None, classes
    km = H.make_keymap(case['keymap'])
    path = case['path']
    key1 = key2 = key3 = None
    tkw = {}
    if case.get('tol') is not None and path != '_keygen':
        tkw = {'tol': case['tol'], 'deep': bool(case.get('deep'))}
        classes.append('tol:%r' % case['tol'])
    ig = tuple(case.get('ignore') or ())
    gkw = dict(tkw)              # klepto.keygen takes the ignore selectors positionally
    if ig:
        tkw = dict(tkw, ignore=ig)
        classes.append('ignore_in_effect')
    try:
        if path == 'fkey' or path == 'call':
            dec = H.decorator_class(case['module'], case['algo'])(keymap=km, **tkw)
            f = dec(target)
            if path == 'fkey':
                for oa, ok in others[:2]:
                    f.key(*oa, **ok)
                key1 = f.key(*a1, **k1)
                for oa, ok in others[2:]:
                    f.key(*oa, **ok)
                key2 = f.key(*a2, **k2)
                # a fresh twin function with no history must produce the same key (keys do not depend on what was keyed before)
                target2 = build_target(case, [])[0]
                key3 = H.decorator_class(case['module'], case['algo'])(keymap=km, **tkw)(target2).key(*a2, **k2)
            else:
                for oa, ok in others[:2]:
                    f(*oa, **ok)
                del log[:]
                r1 = f(*a1, **k1)
                n1 = len(log)
                for oa, ok in others[2:]:
                    f(*oa, **ok)
                n1b = len(log)
                r2 = f(*a2, **k2)
                n2 = len(log) - n1b          # evaluations caused by the second spelling itself
                info = f.info()
                usable = True
                try:
                    hash(f.key(*a1, **k1))
                except Exception:
                    usable = False
                if usable and (n1 > 1 or n2 != 0 or info.hit < 1 or r1 != r2):
                    out.append(Discrepancy('C09/call/second-spelling-recomputed/%s' % kmtag(case), 'f(*%r, **%r) then f(*%r, **%r): evaluations %d, info %r; keys %r / %r' % (
                        a1, k1, a2, k2, n2, info, f.key(*a1, **k1), f.key(*a2, **k2))))
                classes.append('call_usable:%s' % usable)
        elif path == 'keygen':
            kg = klepto.keygen(*ig, keymap=km, **gkw)(target)
            for oa, ok in others[:2]:
                kg(*oa, **ok)
            key1 = kg(*a1, **k1)
            for oa, ok in others[2:]:
                kg(*oa, **ok)
            key2 = kg(*a2, **k2)
            key3 = klepto.keygen(*ig, keymap=km, **gkw)(build_target(case, [])[0])(*a2, **k2)
        else:
            for oa, ok in others[:2]:
                klepto._keygen(target, ig, *oa, **ok)
            x1 = klepto._keygen(target, ig, *a1, **k1)
            for oa, ok in others[2:]:
                klepto._keygen(target, ig, *oa, **ok)
            x2 = klepto._keygen(target, ig, *a2, **k2)
            x3 = klepto._keygen(build_target(case, [])[0], ig, *a2, **k2)
            key3 = km(*x3[0], **x3[1])
            key1, key2 = km(*x1[0], **x1[1]), km(*x2[0], **x2[1])
    except Exception as e:
        out.append(Discrepancy('C09/%s/raised/%s' % (path, H.exc_sig(e)), '%r for %r %r / %r %r' % (e, a1, k1, a2, k2)))
        return out, None, classes
    if path != 'call':
        same = False
        try:
            same = (key1 == key2) and type(key1) is type(key2)
        except Exception:
            same = False
        if not same:
            out.append(Discrepancy('C09/%s/keys-differ/%s' % (path, kmtag(case)),
                                   'same binding %r: spelling (*%r, **%r) -> %r ; spelling (*%r, **%r) -> %r' % (b1, a1, k1, key1, a2, k2, key2)))
    if path != 'call' and not out:
        try:
            same3 = (key3 == key2) and type(key3) is type(key2)
        except Exception:
            same3 = False
        if not same3:
            out.append(Discrepancy('C09/%s/key-depends-on-history/%s' % (path, kmtag(case)),
                                   'binding %r keyed after %d other calls -> %r ; on a fresh identical function -> %r' % (b2, len(others), key2, key3)))
    # non-triviality
    more_than_order = (len(a1) != len(a2)) or (set(k1) != set(k2))
    rich = bool(sig['opt'] or S.has_kwonly(sig) or len(case['binding'].get('xkw', [])) >= 2)
    nt = None
    if more_than_order:
        classes.append('differs_beyond_kw_order')
    if list(k1) != list(k2) and set(k1) == set(k2) and len(k1) >= 2:
        classes.append('kw_order_differs')
    if more_than_order and rich:
        nt = (shape(sig), case['kind'], kmtag(case), path, len(a1), len(a2), sorted(k1), sorted(k2))
    return out, nt, classes


def kmtag(case):
    km = case['keymap']
    return '%s%s%s%s%s' % (km['cls'], '' if km['flat'] else '-nonflat', '-typed' if km['typed'] else '', '-sentinel' if km['sentinel'] else '',
                           ('+then-' + km['then']['cls']) if km.get('then') else '')


def shape(sig):
    return (len(sig['req']), len(sig['opt']), bool(sig['varargs']), len(sig['kwreq']), len(sig['kwopt']), bool(sig['varkw']))


REQUIRED_CLASSES = ['extra_keyword_preset_spelled_out', 'kind:bound', 'aliased_arguments', 'kind:partial_bound', 'ignore_in_effect', 'tol:0', 'tol:1', 'differs_beyond_kw_order', 'kw_order_differs', 'kind:method', 'kind:partial', 'path:call', 'path:keygen', 'path:_keygen', 'path:fkey']

EXCLUDED = {'float defaults that change under the rounding tolerance (finding D19, probed)': 'replaced by their rounded value',
            'multi-element sets in partial presets under a tolerance (deep rounding rebuilds a passed set, changing its repr order; same root cause as D19)': 'cut to one element'}


def _t_unstable_default(case, discr):
    return unstable_default(case)


def _t_alias_pickled(case, discr):
    """D25: keys produced by a real pickler (picklemap(serializer='pickle'|'dill'|dill), also as the base of a chain) record which argument
    objects are IDENTICAL (pickle memo): f(p, p) and f(p, q) with q == p get different keys. Trigger = such a keymap + an aliased pair."""
    km = case['keymap']
    return bool(case.get('alias')) and km['cls'] == 'picklemap' and km['opt'] is not None


TRIGGERS = {'tol_unstable_default': _t_unstable_default, 'aliased_arguments_pickled': _t_alias_pickled}
