"""C04 persistence: a fresh handle or process sees exactly what was written."""
import os, sys, shutil, tempfile, copy, atexit
from hypothesis import strategies as st
from harness import arch as A, values as V, procs
from harness.cachehist import exc_sig, _tmproot
from harness.core import Discrepancy

PROP = 'C04'
LEVEL = 'exploration'
RULE = ("cases = persistent archive configuration (file x {pickle, json, source}, dir x {dill, fast, compressed, memmode, json, source}, sqlite file) x alias-free "
        "key pool x values from the codec's domain (nested containers, floats incl. inf, bytes, None; mutable containers that the harness mutates in place "
        "AFTER storing them) x a write history (set, update, del, pop, clear, setdefault; same-size overwrites back to back; bulk updates that FAIL part-way on an unstorable value, the exception caught, after which the writer's own view is what everyone else must see) cut into segments x writer "
        "placement {this process, a forked child per segment that exits afterwards, a separate interpreter launched as a script with bytecode caching on} x "
        "after each segment a set of reader placements {the writer's own handle, a new handle in this process, a new handle in a forked process, a new "
        "handle in a second interpreter (script launch, other hash seed, bytecode on), a handle that interpreter has kept open since the previous segment}. "
        "Oracle = dict model holding store-time deep copies: every reader's dict(items()) must equal it with key and value types exact. At the end: "
        "copy() (rebuild from reported state), dill round trip of the handle, klepto.archives.X(name, cached=True).load() and the pickled cache wrapper "
        "must report the same state, show the same contents, and a write through the rebuilt handle must be visible through the original. Session "
        "stratum: a decorated function computes and dumps results through a cached archive; re-created on a fresh handle in another process it must "
        "answer every call without evaluating (miss == 0). non-trivial = at least one overwrite and one read from another process; source-text "
        "configs: a same-size overwrite re-read by a process that had already imported the previous version; distinct = (config, writer, op kinds, reader placements)")
ASSUMPTIONS = ['values outside a codec domain are not stored (JSON: JSON-native; source text: ascii, finite floats; sqlite: scalars)',
               'popitem is not part of the write histories (which item leaves is unspecified; C03 covers it)',
               'sqlite handles do not pickle: the dill round trip of the handle is skipped for sqlite (copy() and cached re-open are checked)',
               'worker interpreters run with python default bytecode caching (PYTHONDONTWRITEBYTECODE removed); the harness process itself does not write bytecode']

N = {'quick': 700, 'thorough': 8000}
SHARDS = {'quick': 4, 'thorough': 16}
CONFIGS = A.PERSISTENT

_W = {}


def worker(role):
    w = _W.get(role)
    if w is None or w.p.poll() is not None:
        if role == 'writer':
            w = procs.Worker(hashseed='1', bytecode=True, launch='script', cwd='/')
        else:
            w = procs.Worker(hashseed='4242', bytecode=True, launch='script', cwd='/')
        _W[role] = w
    return w


@atexit.register
def _close_workers():
    for w in _W.values():
        w.close()


WOPS = ['set', 'set', 'set', 'set', 'del', 'pop', 'upd', 'clear', 'setdef', 'mut', 'flip', 'failupd']
READERS = ['same', 'new', 'fork', 'worker_new', 'worker_kept']


@st.composite
def cases(draw, cfg):
    pool = draw(A.key_pools(cfg, n=(2, 4), stable_only=True))
    nk = len(pool)
    vals = draw(st.lists(A.values(cfg), min_size=3, max_size=6))
    ki, vi = st.integers(0, nk - 1), st.integers(0, len(vals) - 1)
    writer = draw(st.sampled_from(['inproc', 'inproc', 'forked', 'worker']))
    if writer == 'worker' and cfg in ('file_pkl', 'dir_dill') and draw(st.booleans()):
        # a value that is an instance of a class defined in the WRITER's main script (the worker interpreter's __main__): the dill-based codecs
        # store such a class by value, so readers whose __main__ is another script (this harness, its forks) must see the value all the same
        vals = vals + [['M', ['i', draw(st.integers(0, 9))]]]
        ki, vi = st.integers(0, nk - 1), st.sampled_from([len(vals) - 1] * 2 + list(range(len(vals) - 1)))
    segs = []
    for _ in range(draw(st.integers(1, 4))):
        ops = []
        for _ in range(draw(st.integers(2, 6))):
            k = draw(st.sampled_from(WOPS))
            if k == 'set':
                ops.append(['set', draw(ki), draw(vi)])
            elif k in ('del', 'pop'):
                ops.append([k, draw(ki)])
            elif k == 'upd':
                ops.append(['upd', [[draw(ki), draw(vi)] for _ in range(draw(st.integers(0, 3)))]])
            elif k == 'clear':
                ops.append(['clear'])
            elif k == 'setdef':
                ops.append(['setdef', draw(ki), draw(vi)])
            elif k == 'mut' and writer == 'inproc':
                ops.append(['mut', draw(vi)])
            elif k == 'failupd' and writer == 'inproc' and A.POISON[A.codec(cfg)]:
                # a bulk write that fails part-way: storable items first, then a value the codec cannot store; the caller catches the exception
                ops.append(['failupd', [[draw(ki), draw(vi)] for _ in range(draw(st.integers(1, 2)))], draw(ki), draw(st.sampled_from(A.POISON[A.codec(cfg)]))])
            elif k == 'flip':
                # overwrite with a value of the same encoded size (two different indices of the value pool are not enough: use the digit pool)
                ops.append(['flipset', draw(ki), draw(st.integers(0, 9))])
        reads = draw(st.lists(st.sampled_from(READERS), min_size=1, max_size=3, unique=True))
        # what each reader asks for: the whole contents, only the key listing, or value lookups without any listing
        views = [draw(st.sampled_from(['items', 'items', 'keys', 'get'])) for _ in reads]
        segs.append({'ops': ops, 'reads': reads, 'views': views})
    return {'cfg': cfg, 'keys': pool, 'vals': vals, 'writer': writer, 'segs': segs, 'mode': 'history'}


@st.composite
def session_cases(draw, cfg):
    args = draw(st.lists(st.integers(0, 6), min_size=1, max_size=5, unique=True))
    return {'cfg': cfg, 'mode': 'session', 'args': args, 'maxsize': draw(st.sampled_from([1, 2, 100])), 'algo': draw(st.sampled_from(['lru', 'lfu', 'mru', 'rr', 'inf', 'no'])),
            'reader': draw(st.sampled_from(['fork', 'worker', 'inproc'])), 'dump': draw(st.sampled_from(['dump', 'evict', 'sync']))}


def strata(tier):
    return [(c, cases(c)) for c in CONFIGS] + [('session', st.sampled_from(CONFIGS).flatmap(session_cases))]


# ------------------------------------------------------------ execution

DIGITS = [['i', d] for d in range(10)]


def run_case(case):
    root = tempfile.mkdtemp(prefix='c04_', dir=_tmproot())
    cwd = os.getcwd()
    try:
        os.chdir(root)       # a dill round trip of a dir_archive re-creates basename(dir) in the cwd: keep that inside the scratch directory
        if case['mode'] == 'session':
            return _session(case, root)
        return _history(case, root)
    finally:
        os.chdir(cwd)
        shutil.rmtree(root, ignore_errors=True)


def _worker_vals(case):
    return list(case['vals']) + DIGITS


def _norm_ops(ops, nvals):
    """flipset k d -> set k (index of digit d in the extended value pool)"""
    out = []
    for op in ops:
        if op[0] == 'flipset':
            out.append(['set', op[1], nvals + op[2]])
        elif op[0] != 'mut':
            out.append(op)
        else:
            out.append(op)
    return out


def _history(case, root):
    cfg = case['cfg']
    classes = ['cfg:' + cfg, 'writer:' + case['writer']] + (['value_of_class_in_writers_main'] if any(sp[0] == 'M' for sp in case['vals']) else [])
    out = []
    keys = [A.build_key(s) for s in case['keys']]
    vspecs = _worker_vals(case)
    vals = [V.build(s) for s in vspecs]
    nv = len(case['vals'])
    model = {}
    flags = {'overwrite': 0, 'otherproc_read': 0, 'samesize_overwrite': 0, 'mutated_after_store': 0}
    kinds, readers = [], []
    name = 'A'
    handle = None
    wk = None
    if case['writer'] == 'worker':
        wk = worker('writer')
        wk.request({'cmd': 'reset'})
    rd = None
    try:
        if case['writer'] == 'inproc':
            handle = A.open_archive(cfg, root, name)
    except Exception as e:
        return [Discrepancy('C04/%s/open/%s' % (cfg, exc_sig(e)), repr(e))], None, classes
    last_digit = {}
    for si, seg in enumerate(case['segs']):
        ops = _norm_ops(seg['ops'], nv)
        # ---- model
        for op in ops:
            kinds.append(op[0])
            if op[0] == 'mut':
                v = vals[op[1]]
                if isinstance(v, list):
                    v.append('mutated')
                    flags['mutated_after_store'] += 1
                elif isinstance(v, dict):
                    v['mutated'] = 1
                    flags['mutated_after_store'] += 1
                elif isinstance(v, set):
                    v.add('mutated')
                    flags['mutated_after_store'] += 1
                continue
            if op[0] == 'set':
                if keys[op[1]] in model:
                    flags['overwrite'] += 1
                    if op[2] >= nv and last_digit.get(op[1]) is not None and last_digit[op[1]] != op[2]:
                        flags['samesize_overwrite'] += 1
                last_digit[op[1]] = op[2] if op[2] >= nv else None
            elif op[0] in ('del', 'pop', 'clear'):
                if op[0] == 'clear':
                    last_digit.clear()
                else:
                    last_digit.pop(op[1], None)
        # ---- writer
        try:
            if case['writer'] == 'inproc':
                for op in ops:
                    if op[0] == 'failupd':
                        d = _failing_bulk_write(cfg, handle, op, keys, vals, model, si)
                        classes.append('failing_bulk_write')
                        if d is not None:
                            out.append(d)
                            break
                    elif op[0] != 'mut':
                        A.apply_write(handle, op, keys, vals)
                        A.model_write(model, op, keys, vals)
                if out:
                    break
            else:
                wops = [op for op in ops if op[0] != 'mut']
                for op in wops:
                    A.model_write(model, op, keys, vals)
                if case['writer'] == 'forked':
                    def child():
                        a = A.open_archive(cfg, root, name)
                        try:
                            for op in wops:
                                A.apply_write(a, op, keys, vals)
                        except Exception as e:
                            return ('exc', exc_sig(e), repr(e))
                        return ('ok',)
                    r = procs.in_fork(child)
                else:
                    r = wk.request({'cmd': 'apply', 'cfg': cfg, 'root': root, 'name': name, 'handle': 'kept', 'keys': case['keys'], 'vals': vspecs, 'ops': wops})
                if r[0] != 'ok':
                    out.append(Discrepancy('C04/%s/write/%s/raised/%s' % (cfg, case['writer'], r[1]), 'segment %d %r: %s' % (si, wops, r[2] if len(r) > 2 else r)))
                    break
        except Exception as e:
            if isinstance(e, __import__('harness.core', fromlist=['HarnessError']).HarnessError):
                raise
            out.append(Discrepancy('C04/%s/write/%s/raised/%s' % (cfg, case['writer'], exc_sig(e)), 'segment %d %r: %r' % (si, ops, e)))
            break
        # ---- readers
        for ri, place in enumerate(seg['reads']):
            view = (seg.get('views') or ['items'] * len(seg['reads']))[ri]
            vreq = {'view': view, 'keys': case['keys']}
            if place == 'same':
                if case['writer'] == 'inproc':
                    obs = A.observe(handle, view, keys)
                elif case['writer'] == 'worker':
                    obs = wk.request(dict({'cmd': 'read', 'cfg': cfg, 'root': root, 'name': name, 'handle': 'kept'}, **vreq))
                    flags['otherproc_read'] += 1
                else:
                    continue
            elif place == 'new':
                try:
                    obs = A.observe(A.open_archive(cfg, root, name), view, keys)
                except Exception as e:
                    obs = ('exc', type(e).__name__, 'open: %r' % e)
            elif place == 'fork':
                obs = procs.in_fork(lambda: _open_observe(cfg, root, name, view, keys))
                flags['otherproc_read'] += 1
            else:
                rd = worker('reader')
                obs = rd.request(dict({'cmd': 'read', 'cfg': cfg, 'root': root, 'name': name, 'handle': 'kept' if place == 'worker_kept' else 'new'}, **vreq))
                flags['otherproc_read'] += 1
            readers.append(place)
            classes.append('reader:' + place)
            classes.append('view:' + view)
            want = model if view != 'keys' else dict((k, None) for k in model)
            d = _compare(cfg, case['writer'], place + ('' if view == 'items' else '-' + view), si, obs, want)
            if d is not None:
                out.append(d)
                break
        if out:
            break
    # ---- rebuild paths
    if not out:
        try:
            d = _rebuild(cfg, root, name, model, keys, classes)
        except Exception as e:
            from harness.core import HarnessError
            if isinstance(e, HarnessError):
                raise
            d = Discrepancy('C04/%s/rebuild/raised/%s' % (cfg, exc_sig(e)), repr(e))
        if d is not None:
            out.append(d)
    for w in (wk, rd):
        if w is not None:
            try:
                w.request({'cmd': 'reset'})
            except Exception:
                pass
    _close(handle)
    for f, v in flags.items():
        if v:
            classes.append(f)
    nt = None
    if flags['overwrite'] and flags['otherproc_read']:
        nt = (cfg, case['writer'], kinds, readers)
    return out, nt, classes


def _failing_bulk_write(cfg, handle, op, keys, vals, model, si):
    """update() with storable items followed by an unstorable one; the exception is caught as a caller would. How much of a failed bulk write
    sticks is not C04's business (C03): whatever the WRITER's own handle shows afterwards becomes the model every other reader must agree with."""
    import copy
    items = [(keys[i], vals[j]) for i, j in op[1]]
    pk = keys[op[2]]
    items = [(k, v) for k, v in items if k != pk] + [(pk, A.poison(op[3]))]
    try:
        handle.update(dict(items))
        return None           # stored after all (not this property's concern); nothing to compare against
    except Exception:
        pass
    obs = A.observe(handle, 'items')
    if obs[0] != 'ok':
        return Discrepancy('C04/%s/same-reader/raised-after-failed-bulk-write/%s' % (cfg, obs[1]), 'segment %d %r: %s' % (si, op, obs[2]))
    new = dict(items[:-1])
    for k, v in obs[1].items():
        ok = (k in model and A.exact({k: v}, {k: model[k]})) or (k in new and A.exact({k: v}, {k: new[k]}))
        if not ok:
            return Discrepancy('C04/%s/same-reader/failed-bulk-write-invented-value' % cfg, 'segment %d %r: writer sees %r = %r' % (si, op, k, v))
    for k in model:
        if k not in obs[1]:
            return Discrepancy('C04/%s/same-reader/failed-bulk-write-lost-key' % cfg, 'segment %d %r: key %r gone from the view of the writer itself' % (si, op, k))
    model.clear()
    model.update(copy.deepcopy(obs[1]))
    return None


def noop():
    return None


def _close(a):
    conn = getattr(a, '_conn', None)
    if conn is not None:
        try:
            conn.close()
        except Exception:
            pass


def _open_observe(cfg, root, name, view='items', keys=None):
    try:
        a = A.open_archive(cfg, root, name)
    except Exception as e:
        return ('exc', type(e).__name__, 'open: %r' % e)
    return A.observe(a, view, keys)


def _compare(cfg, writer, place, si, obs, model):
    if obs[0] != 'ok':
        return Discrepancy('C04/%s/%s-reader/raised/%s' % (cfg, place, obs[1]), 'segment %d (writer %s): reader raised %s; written: %s' % (si, writer, obs[2], A.describe(model)))
    got = obs[1]
    if A.exact(got, model):
        return None
    if got == model:
        what = 'types-differ'
    elif not got and model:
        what = 'reads-empty'
    elif set(map(repr, got)) == set(map(repr, model)):
        what = 'stale-or-wrong-value'
    else:
        what = 'keys-differ'
    return Discrepancy('C04/%s/%s-reader/%s' % (cfg, place, what), 'segment %d (writer %s): %s reader sees %s, written %s' % (si, writer, place, A.describe(got), A.describe(model)))


def _rebuild(cfg, root, name, model, keys, classes):
    import dill
    a = A.open_archive(cfg, root, name)
    probe_key = keys[0]
    paths = [('copy', lambda: a.copy())]
    if A.codec(cfg) != 'sql':
        paths.append(('dill', lambda: dill.loads(dill.dumps(a))))
    for pname, mk in paths:
        b = mk()
        classes.append('rebuild:' + pname)
        if b.state != a.state:
            return Discrepancy('C04/%s/rebuild-%s/state-differs' % (cfg, pname), '%r vs %r' % (b.state, a.state))
        obs = A.observe(b)
        if obs[0] != 'ok' or not A.exact(obs[1], model):
            return Discrepancy('C04/%s/rebuild-%s/contents-differ' % (cfg, pname), 'rebuilt sees %r, written %s' % (obs[1:], A.describe(model)))
        # a write through the rebuilt handle is visible through the original
        newv = 7 if not (probe_key in model and A.exact(model[probe_key], 7)) else 8
        b[probe_key] = newv
        model[probe_key] = newv
        obs = A.observe(a)
        if obs[0] != 'ok' or not A.exact(obs[1], model):
            return Discrepancy('C04/%s/rebuild-%s/write-not-visible-through-original' % (cfg, pname), 'original sees %r, expected %s' % (obs[1:], A.describe(model)))
        _close(b)
    # behind a cache: klepto.archives.X(name, cached=True) + load()
    c = A.open_archive(cfg, root, name, cached=True)
    c.load()
    classes.append('rebuild:cached-load')
    if not A.exact(dict(c), model):
        return Discrepancy('C04/%s/cached-load/contents-differ' % cfg, 'cache after load() %s, written %s' % (A.describe(dict(c)), A.describe(model)))
    if A.codec(cfg) != 'sql':
        c2 = dill.loads(dill.dumps(c))
        classes.append('rebuild:pickled-cache')
        if not A.exact(dict(c2), model):
            return Discrepancy('C04/%s/pickled-cache/cache-contents-differ' % cfg, '%s vs %s' % (A.describe(dict(c2)), A.describe(model)))
        if c2.archive.state != a.state:
            return Discrepancy('C04/%s/pickled-cache/archive-state-differs' % cfg, '%r vs %r' % (c2.archive.state, a.state))
        obs = A.observe(c2.archive)
        if obs[0] != 'ok' or not A.exact(obs[1], model):
            return Discrepancy('C04/%s/pickled-cache/archive-contents-differ' % cfg, '%r vs %s' % (obs[1:], A.describe(model)))
    _close(c.archive)
    _close(a)
    return None


# ------------------------------------------------------------ sessions (re-decoration on the archive)

def _keymap_for(cfg):
    import klepto.keymaps as km
    if cfg == 'dir_src':
        return km.hashmap(algorithm='md5')
    if A.codec(cfg) in ('json', 'sql', 'src'):
        return km.stringmap()
    return km.keymap()


def _decorate(cfg, root, algo, maxsize, log):
    import klepto
    def fn(x, y=1):
        log.append(x)
        return x * 3 + y
    c = A.open_archive(cfg, root, 'F', cached=True)
    dec = {'lru': klepto.lru_cache, 'lfu': klepto.lfu_cache, 'mru': klepto.mru_cache, 'rr': klepto.rr_cache, 'inf': klepto.inf_cache, 'no': klepto.no_cache}[algo]
    kw = dict(cache=c, keymap=_keymap_for(cfg))
    if algo not in ('inf', 'no'):
        kw['maxsize'] = maxsize
    return dec(**kw)(fn), c


def session_write(cfg, root, algo, maxsize, args, dump):
    log = []
    f, c = _decorate(cfg, root, algo, maxsize, log)
    res = [f(a) for a in args]
    if dump == 'dump':
        f.dump()
    elif dump == 'sync':
        c.sync()
    else:
        f.dump()      # evictions already wrote the victims; the residents are flushed here
    _close(c.archive)
    return res, len(log)


def session_read(cfg, root, algo, maxsize, args):
    log = []
    f, c = _decorate(cfg, root, algo, maxsize, log)
    res = [f(a, y=1) for a in reversed(args)]       # another spelling, another order
    info = f.info()
    _close(c.archive)
    return res, len(log), (info.hit, info.miss, info.load)


def _session(case, root):
    cfg = case['cfg']
    classes = ['cfg:' + cfg, 'session', 'session-reader:' + case['reader'], 'session-algo:' + case['algo']]
    args = dict(cfg=cfg, root=root, algo=case['algo'], maxsize=case['maxsize'], args=case['args'])
    out = []
    try:
        res, n = procs.in_fork(lambda: session_write(dump=case['dump'], **args))
    except Exception as e:
        from harness.core import HarnessError
        if isinstance(e, HarnessError) and 'forked child raised' in str(e):
            return [Discrepancy('C04/%s/session/writer-raised' % cfg, str(e)[-1500:])], None, classes
        raise
    expect = [a * 3 + 1 for a in case['args']]
    if res != expect or n != len(case['args']):
        out.append(Discrepancy('C04/%s/session/writer-results' % cfg, '%r (%d evaluations) expected %r' % (res, n, expect)))
        return out, None, classes
    try:
        if case['reader'] == 'fork':
            r = procs.in_fork(lambda: session_read(**args))
        elif case['reader'] == 'worker':
            r = worker('reader').request({'cmd': 'call', 'mod': 'props.c04', 'fn': 'session_read', 'args': args})[1]
        else:
            r = session_read(**args)
    except Exception as e:
        from harness.core import HarnessError
        if isinstance(e, HarnessError) and ('raised' in str(e)):
            return [Discrepancy('C04/%s/session/reader-raised' % cfg, str(e)[-1500:])], None, classes
        raise
    res2, n2, info = r
    if res2 != list(reversed(expect)):
        out.append(Discrepancy('C04/%s/session/reader-results-differ' % cfg, '%r expected %r' % (res2, list(reversed(expect)))))
    elif n2 != 0 or info[1] != 0:
        out.append(Discrepancy('C04/%s/session/re-decorated-function-recomputed' % cfg, 'reader %s: %d evaluations, info hit/miss/load %r for args %r (algo %s maxsize %r)' % (
            case['reader'], n2, info, case['args'], case['algo'], case['maxsize'])))
    nt = (cfg, 'session', case['algo'], case['reader'], len(case['args']), case['maxsize'])
    return out, nt, classes


REQUIRED_CLASSES = ['value_of_class_in_writers_main', 'failing_bulk_write', 'view:items', 'view:keys', 'view:get', 'overwrite', 'otherproc_read', 'samesize_overwrite', 'mutated_after_store', 'session', 'rebuild:copy', 'rebuild:dill', 'rebuild:cached-load',
                    'rebuild:pickled-cache', 'writer:inproc', 'writer:forked', 'writer:worker'] + ['reader:' + r for r in READERS] + ['cfg:' + c for c in CONFIGS]
TRIGGERS = {}
