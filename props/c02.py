"""C02 compute-once: the function runs only when no stored result is retrievable."""
from harness import cachehist as H, cachegen as G
from harness.core import Discrepancy
from props._cc import has, base_classes, same, outcome

PROP = 'C02'
LEVEL = 'exploration'
RULE = ("stratified cases as C01 (directory archives also named by a RELATIVE path, existing or new, with the working directory changed during the history) plus session ops: re-decoration of a new function object on the same cache object, re-open of a fresh handle "
        "on the same location, a SECOND live decorated function with its own handle on the same location used in turn with the first (dump before each switch), and a forked child process that re-creates the decorated function on the archive location and replays calls. "
        "Oracle per call from the observed pre-state: retrievable := key resident or (archiving on and key in archive); the function is evaluated "
        "exactly once iff not retrievable, never when retrievable. non-trivial = a repeat call for a key that was evicted/purged/dumped earlier, or a "
        "repeat call after re-decoration/re-open/fork; distinct = (class, backend, outcome+evaluation sequence)")
ASSUMPTIONS = ['pre-state observed through f.__cache__() and its archive; f.key() identifies the call',
               'lossless = the codec round-trip domain computed per backend (C01 exclusions apply)']
EXCLUDED = dict(G.EXCLUSIONS)

N = {'quick': 500, 'thorough': 3000}
SHARDS = {'quick': 4, 'thorough': 16}


def _two_sessions(pair):
    case, pick = pair
    if pick and H.backend_persistent(case['backend']) and H.backend_archived(case['backend']) and not case.get('attach_later') and len(case['pool']) >= 2:
        # constructed opening: two live decorated functions on the same location take turns; each asks for what the other has just computed and dumped
        pre = [['call', 0, 0, 0], ['dumpswitch'], ['call', 1, 0, 0], ['dumpswitch'], ['call', 1, 0, 0], ['call', 0, 0, 0], ['dumpswitch'], ['call', 0, 1, 0], ['call', 1, 0, 0]]
        case = dict(case, ops=pre + [op for op in case['ops'] if op[0] not in ('clear', 'clearkeep', 'arch_off')])
    return case


def counting_cases(algo):
    """archives whose key LISTING is lossy or unusable for the harness (json directory archive under raw tuple keys: keys come back as lists) are
    outside the observed-pre-state oracle; the derived clause needs no observation: with the archive attached all along and nothing cleared, every
    distinct argument is evaluated exactly once, across evictions, purges, dump() and a second decorator on the same directory"""
    from hypothesis import strategies as st
    return st.fixed_dictionaries({
        'part': st.just('count'), 'module': st.sampled_from(['std', 'safe']), 'algo': st.just(algo), 'maxsize': st.sampled_from([1, 2, 3]), 'purge': st.booleans(),
        'arch': st.sampled_from(['dir_json', 'dir_json', 'dir_dill', 'dir_fast']), 'typed': st.booleans(),
        'ops': st.lists(st.one_of(st.tuples(st.just('call'), st.integers(0, 5), st.integers(0, 1)).map(list), st.just(['dump']), st.just(['second'])), min_size=3, max_size=25)})


def run_counting(case):
    import os
    import klepto.archives as KA
    from klepto.keymaps import keymap as rawmap
    out = []
    algo = case['algo']
    classes = ['part:count', 'module:' + case['module'], 'eff_algo:' + algo, 'count_arch:' + case['arch']]
    evals = {}

    def body(x, y=0):
        evals[(x, y)] = evals.get((x, y), 0) + 1
        return 'r%d.%d' % (x, y)
    with H.Scratch() as sc:
        path = os.path.join(sc.path, 'store')

        def mk():
            kw = {'protocol': 'json'} if case['arch'] == 'dir_json' else ({'fast': True} if case['arch'] == 'dir_fast' else {})
            c = KA.dir_archive(path, cached=True, **kw)
            # (a typed raw key holds type objects, which the JSON codec cannot write: typed keys only with the pickling directory archives)
            dkw = {'cache': c, 'keymap': rawmap(typed=case['typed'] and case['arch'] != 'dir_json')}
            if algo not in ('no', 'inf'):
                dkw.update(maxsize=case['maxsize'], purge=case['purge'])
            return H.decorator_class(case['module'], algo)(**dkw)(body)
        f = mk()
        repeat = 0
        for i, op in enumerate(case['ops']):
            try:
                if op[0] == 'call':
                    if (op[1], op[2]) in evals:
                        repeat += 1
                    r = f(op[1], op[2]) if op[2] else f(op[1])
                    if r != 'r%d.%d' % (op[1], op[2]):
                        out.append(Discrepancy('C02/count/%s/wrong-result' % algo, 'step %d: %r' % (i, r)))
                elif op[0] == 'dump':
                    f.dump()
                else:
                    f.dump()
                    f = mk()            # a second decorator on the same directory (after a dump: nothing is only in memory)
                    classes.append('second_decorator')
            except Exception as e:
                out.append(Discrepancy('C02/count/%s/raised/%s' % (algo, H.exc_sig(e)), 'step %d %r: %r' % (i, op, e)))
            twice = [k for k, n in evals.items() if n > 1]
            if twice and not out:
                out.append(Discrepancy('C02/count/%s/key-evaluated-twice-with-archive-attached' % algo, 'step %d: arguments %r evaluated %d times (%s, raw%s keys); ops %r' % (
                    i, twice[0], evals[twice[0]], case['arch'], ' typed' if case['typed'] else '', case['ops'][:i + 1])))
            if out:
                break
    if repeat:
        classes.append('count_repeat_call')
    nt = ('count', case['module'], algo, case['arch'], case['maxsize'], case['purge'], tuple(map(tuple, case['ops']))) if repeat else None
    return out[:1], nt, classes


def strata(tier):
    from hypothesis import strategies as st
    return [('counting/' + a, counting_cases(a)) for a in H.ALGOS] + [(n, st.tuples(s, st.sampled_from([0, 0, 1])).map(_two_sessions)) for n, s in _strata(tier)]


def _strata(tier):
    return G.strata_grid(
        maxsizes=(2, 1, 3, 5, None, 0),
        weights={'call': 16, 'burst': 1, 'load': 1, 'dump': 2, 'dumpk': 1, 'loadk': 1, 'clear': 1, 'clearkeep': 0,
                 'arch_off': 1, 'arch_on': 1, 'awrite': 1, 'redecorate': 2, 'reopen': 1, 'dumpreopen': 2, 'dumpswitch': 3, 'fork': 1},
        max_ops=30 if tier == 'quick' else 60, pool=(3, 7), prefill_pct=10, relpath_pct=40, attach_later_pct=12)


def per_call(case, tr, flags=None):
    out = []
    if tr.setup_exc is not None:
        out.append(Discrepancy('C02/decorate/%s' % H.exc_sig(tr.setup_exc), repr(tr.setup_exc)))
        return out
    algo = H.effective_algo(case)
    gone = set()
    after_switch = False
    # derived global clause: with a lossless archive attached all along and nothing explicitly cleared,
    # every key is evaluated at most once by all decorator instances sharing the cache object
    global_ok = H.backend_archived(case['backend']) and not case.get('attach_later')      # (attached later: results computed before that are memory-only)
    total = {}
    for i, s in enumerate(tr.steps):
        if s.kind in ('arch_off', 'clear', 'clearkeep') or (s.kind in ('reopen', 'switch') and (i == 0 or tr.steps[i - 1].kind != 'dump')):
            global_ok = False
        if s.kind in ('redecorate', 'reopen', 'fork', 'switch'):
            if s.exc is not None:
                out.append(Discrepancy('C02/%s/raised/%s' % (s.kind, H.exc_sig(s.exc)), 'step %d: %r' % (i, s.exc)))
                return out
            if s.kind == 'fork':
                for sig, detail in (s.result or []):
                    out.append(Discrepancy(sig.replace('C02/', 'C02/fork/', 1), 'step %d (forked session): %s' % (i, detail)))
                if out:
                    return out
                if flags is not None:
                    flags['fork'] += 1
            after_switch = True
            if flags is not None and s.kind == 'switch' and s.result == 'switched':
                flags['two_live_sessions'] = flags.get('two_live_sessions', 0) + 1
            continue
        if s.kind == 'attach' and s.result is False:
            out.append(Discrepancy('C02/attach/archive-not-attached', 'step %d: f.archive(%s handle) returned normally but f.archived() is False: from now on every result is memory-only and evicted keys are evaluated again' % (
                i, 'cached' if case.get('attach_cached') else 'bare')))
            return out
        if s.kind != 'call':
            if s.exc is not None and not (s.kind in ('arch_on', 'arch_off') and isinstance(s.exc, ValueError)):
                out.append(Discrepancy('C02/%s/raised/%s' % (s.kind, H.exc_sig(s.exc)), 'step %d %r: %r' % (i, s.op, s.exc)))
                return out
            continue
        if s.exc is not None:
            out.append(Discrepancy('C02/call/raised/%s' % H.exc_sig(s.exc), 'step %d: %r' % (i, s.exc)))
            return out
        retrievable = has(s.pre_mem, s.key) or (s.pre_arch is not None and has(s.pre_arch, s.key))
        if retrievable and s.evals != 0:
            where = 'memory' if has(s.pre_mem, s.key) else 'archive'
            out.append(Discrepancy('C02/%s/recomputed-retrievable-result-in-%s' % (algo, where),
                                   'step %d: key %r was in %s, function evaluated %d time(s)' % (i, s.key, where, s.evals)))
            return out
        if not retrievable and s.evals != 1:
            out.append(Discrepancy('C02/%s/evaluations-when-not-retrievable' % algo,
                                   'step %d: key %r not stored anywhere, %d evaluations' % (i, s.key, s.evals)))
            return out
        if global_ok and s.evals:
            kr = repr(s.key)
            total[kr] = total.get(kr, 0) + s.evals
            if total[kr] > 1:
                out.append(Discrepancy('C02/%s/key-evaluated-twice-with-archive-attached' % algo,
                                       'step %d: key %r evaluated %d times although a lossless archive was attached all along' % (i, s.key, total[kr])))
                return out
        if flags is not None:
            kr = repr(s.key)
            if retrievable and kr in gone:
                flags['repeat_after_eviction'] += 1
            if retrievable and after_switch:
                flags['repeat_after_switch'] += 1
            if not has(s.post_mem, s.key):
                gone.add(kr)
            for k in s.pre_mem:
                if not has(s.post_mem, k):
                    gone.add(repr(k))
            flags['ev'].append('%s%d' % (outcome(s, algo)[0], s.evals))
    return out


def run_case(case):
    if case.get('part') == 'count':
        return run_counting(case)
    tr = H.run_history(case, fork_check=per_call)
    flags = {'repeat_after_eviction': 0, 'repeat_after_switch': 0, 'fork': 0, 'ev': []}
    discrs = per_call(case, tr, flags)
    classes = base_classes(case) + [k for k in ('repeat_after_eviction', 'repeat_after_switch', 'fork', 'two_live_sessions') if flags.get(k)]
    nt = None
    if flags['repeat_after_eviction'] or flags['repeat_after_switch']:
        nt = (case['module'], case['algo'], case['purge'], case['backend'], flags['ev'])
    return discrs, nt, sorted(set(classes))


REQUIRED_CLASSES = ['count_repeat_call', 'second_decorator', 'two_live_sessions', 'relative_dir_archive:existing', 'chdir_away', 'repeat_after_eviction', 'repeat_after_switch', 'fork', 'module:safe', 'eff_algo:no', 'eff_algo:mru', 'eff_algo:lfu', 'eff_algo:rr']
TRIGGERS = {}
