"""C17 keys are stable across interpreter sessions."""
import os, sys, shutil, tempfile, atexit, pickle, inspect
from hypothesis import strategies as st
from harness import arch as A, values as V, sigs as S, procs, cachehist as H
from harness.cachehist import exc_sig, _tmproot
from harness.core import Discrepancy, Multi

PROP = 'C17'
LEVEL = 'exploration'
RULE = ("cases (keys) = signature (defaults, *args, keyword-only, **kw) x binding x THREE spellings of the same call (positional prefix length, keyword "
        "order, defaults spelled or omitted), one per worker interpreter started with PYTHONHASHSEED 0 / 1 / 4242 x every session-stable keymap (raw, "
        "string {str, repr}, pickle {pickle, dill}, hash {md5, sha1, sha256}; flat or not, typed or not, sentinel or not) x path {decorated f.key, "
        "klepto.keygen}. Oracle: repr(key) byte-identical in all three interpreters. Inputs whose own repr/pickle differs between the interpreters are "
        "discarded and counted (the property's own side condition). cases (sessions) = persistent archive x keymap x 1-5 calls: interpreter A (seed 1) "
        "decorates, calls, dump()s; interpreter B (seed 4242) re-decorates on a fresh handle and calls with other spellings: results equal, zero "
        "evaluations, info().miss == 0, every call a hit or a load. non-trivial = arguments contain a str (hash-randomised type) and the call passes >= 2 "
        "keywords, or a session whose reader uses a different spelling; distinct = (keymap, signature shape, spelling forms)")
ASSUMPTIONS = ["sets / frozensets and default-repr objects are not generated (their repr is process-dependent: outside the property's side condition)",
               'hashmap(algorithm=None) (python hash) is not session-stable by the statement and is excluded',
               'equal strings are interned in every interpreter so that pickle memoisation sees the same object graph everywhere']

N = {'quick': 400, 'thorough': 8000}       # batches of BATCH calls per stratum
SHARDS = {'quick': 4, 'thorough': 16}
BATCH = 25
SEEDS = ['0', '1', '4242']

_W = {}


def worker(i):
    w = _W.get(i)
    if w is None or w.p.poll() is not None:
        w = procs.Worker(hashseed=SEEDS[i], bytecode=False, launch='script' if i != 2 else 'dashc', cwd='/')
        _W[i] = w
    return w


@atexit.register
def _close_workers():
    for w in _W.values():
        w.close()


KEYMAPS = []
for flat in (True, False):
    for typed in (False, True):
        for sentinel in (False, True):
            if sentinel and not flat:
                continue
            KEYMAPS.append({'cls': 'keymap', 'opt': None, 'flat': flat, 'typed': typed, 'sentinel': sentinel})
            for enc in (None, 'repr'):
                KEYMAPS.append({'cls': 'stringmap', 'opt': enc, 'flat': flat, 'typed': typed, 'sentinel': sentinel})
            for ser in (None, 'dill', 'dill-module'):
                KEYMAPS.append({'cls': 'picklemap', 'opt': ser, 'flat': flat, 'typed': typed, 'sentinel': sentinel})
            KEYMAPS.append({'cls': 'picklemap', 'opt': 'dill', 'proto': 2, 'flat': flat, 'typed': typed, 'sentinel': sentinel})
            for alg in ('md5', 'sha1', 'sha256'):
                KEYMAPS.append({'cls': 'hashmap', 'opt': alg, 'flat': flat, 'typed': typed, 'sentinel': sentinel})


import hashlib
# every advertised algorithm name (klepto.crypto.algorithms() == hashlib.algorithms_available), not only the ones hashlib has as attributes
OTHER_ALGS = sorted(a for a in hashlib.algorithms_available if a not in ('md5', 'sha1', 'sha256'))
for alg in OTHER_ALGS:
    for flat in (True, False):
        KEYMAPS.append({'cls': 'hashmap', 'opt': alg, 'flat': flat, 'typed': False, 'sentinel': False})
# other SPELLINGS hashlib.new accepts for the same algorithms (upper case, aliases): still a named digest, still session-stable
for alg in ('MD5', 'SHA256', 'sha-256', 'Sha512'):
    try:
        hashlib.new(alg, b'')
    except Exception:
        continue
    KEYMAPS.append({'cls': 'hashmap', 'opt': alg, 'flat': True, 'typed': False, 'sentinel': False})
    KEYMAPS.append({'cls': 'hashmap', 'opt': alg, 'flat': False, 'typed': True, 'sentinel': False})


# chained keymaps ('+'): e.g. md5 of the pickled key, the usual way to get short file-name-safe keys
for _base in [k for k in list(KEYMAPS) if k['cls'] in ('picklemap', 'stringmap') and k['opt'] in (None, 'dill', 'repr') and not k['sentinel']]:
    KEYMAPS.append(dict(_base, then={'cls': 'hashmap', 'opt': 'md5', 'flat': True, 'typed': False, 'sentinel': False}))
    KEYMAPS.append(dict(_base, then={'cls': 'stringmap', 'opt': None, 'flat': True, 'typed': False, 'sentinel': False}))


def stable_values():
    base = st.one_of(V.ints(False), V.strs(True), V.strs(False), V.NONE, V.BOOLS, V.floats(True), V.bytess(), st.deferred(lambda: MAINOBJ))
    return st.recursive(base, lambda ch: st.one_of(
        st.lists(ch, max_size=3).map(lambda xs: ['t', xs]),
        st.lists(ch, max_size=2).map(lambda xs: ['l', xs]),
        st.lists(st.tuples(V.strs(False), ch), max_size=2).map(lambda kvs: ['d', [list(kv) for kv in kvs]])), max_leaves=4)


MAINOBJ = st.one_of(V.ints(), V.strs(False)).map(lambda x: ['M', x])      # instance of a class defined in the worker's __main__


def hashable_values():
    base = st.one_of(V.ints(False), V.strs(True), V.strs(False), V.NONE, V.BOOLS, V.floats(True), V.bytess(), MAINOBJ)
    return st.recursive(base, lambda ch: st.lists(ch, max_size=3).map(lambda xs: ['t', xs]), max_leaves=4)


@st.composite
def key_item(draw):
    sig = draw(S.signatures())
    km = draw(st.sampled_from(KEYMAPS))
    vals = hashable_values() if km['cls'] == 'keymap' else stable_values()
    b = draw(S.bindings(sig, vals))
    forms = [draw(st.integers(0, 255)) for _ in range(3)]
    # 'process state': in ONE of the three interpreters the same keymap is first asked for the key of an argument it cannot
    # encode (a generator); the keys computed afterwards must not depend on that
    return {'sig': sig, 'binding': b, 'forms': forms, 'keymap': km, 'path': draw(st.sampled_from(['fkey', 'keygen'])), 'pre': draw(st.sampled_from([None, None, 'gen'])),
            'module': draw(st.sampled_from(['std', 'safe'])), 'algo': draw(st.sampled_from(H.ALGOS))}


@st.composite
def key_cases(draw):
    return {'mode': 'keys', 'items': draw(st.lists(key_item(), min_size=1, max_size=BATCH))}


SESSION_CFGS = ['file_pkl', 'file_json', 'dir_dill', 'dir_fast', 'dir_json', 'sql_file', 'file_src']


@st.composite
def session_cases(draw):
    cfg = draw(st.sampled_from(SESSION_CFGS))
    codec = A.codec(cfg)
    if codec in ('json', 'src'):
        kms = [k for k in KEYMAPS if k['cls'] in ('stringmap', 'hashmap')]
    elif codec == 'sql':
        kms = [k for k in KEYMAPS if k['cls'] != 'keymap']
    else:
        kms = KEYMAPS
    pathy = False
    if A.is_dir(cfg):
        if draw(st.integers(0, 3)) == 0 and codec != 'json':
            # text keys in a directory archive, with arguments that contain a path separator (file names, URLs): entries end up in nested
            # directories, which per-key loads handle; '-' and '_' are left out of the arguments (they share a directory name: finding D8a)
            kms = [k for k in kms if k['cls'] in ('stringmap', 'keymap') and k['flat'] and not k.get('then')]
            pathy = True
        else:
            kms = [k for k in kms if k['cls'] in ('hashmap', 'picklemap')]      # directory-name-safe keys
    # shake_* digests need a length: klepto's hash() cannot produce a key with them at all (every call raises / falls back): not a stability matter
    kms = [k for k in kms if not (k['cls'] == 'hashmap' and str(k['opt']).startswith('shake_'))]
    # a non-flat raw key is (args, {kwds}): unhashable, so no cache can store under it (safe caches just evaluate): nothing to find in a later session
    kms = [k for k in kms if not (k['cls'] == 'keymap' and not k['flat'])]
    km = draw(st.sampled_from(kms))
    sig = draw(S.signatures())
    vals = st.one_of(V.ints(), V.strs(False), V.floats(), V.NONE, V.BOOLS, st.lists(st.one_of(V.ints(), V.strs(False)), max_size=2).map(lambda xs: ['t', xs]))
    if pathy:
        vals = st.one_of(st.integers(0, 6).map(lambda i: ['i', i]), st.sampled_from([['s', 'a/b'], ['s', 'u/v/w.txt'], ['s', 'http://x/y'], ['s', 'ab'], ['s', 'c.d']]))
    n = draw(st.integers(1, 5))
    calls = [{'binding': draw(S.bindings(sig, vals)), 'forms': [draw(st.integers(0, 255)), draw(st.integers(0, 255))]} for _ in range(n)]
    return {'mode': 'session', 'cfg': cfg, 'keymap': km, 'sig': sig, 'calls': calls, 'algo': draw(st.sampled_from(['lru', 'lfu', 'mru', 'rr', 'inf', 'no'])),
            'maxsize': draw(st.sampled_from([1, 2, 100])), 'module': draw(st.sampled_from(['std', 'safe']))}


def strata(tier):
    n = 2 if tier == 'quick' else 8         # same strategies under several names: one stratum per shard (each gets its own derived seed)
    out = []
    for i in range(n):
        out.append(('keys-%d' % i, key_cases()))
        out.append(('sessions-%d' % i, st.lists(session_cases(), min_size=1, max_size=5).map(lambda cs: {'mode': 'sessions', 'cases': cs})))
    return out


# ------------------------------------------------------------ worker side

def intern_all(v):
    if isinstance(v, str):
        return sys.intern(v)
    if isinstance(v, tuple):
        return tuple(intern_all(x) for x in v)
    if isinstance(v, list):
        return [intern_all(x) for x in v]
    if isinstance(v, dict):
        return dict((intern_all(k), intern_all(x)) for k, x in v.items())
    if type(v).__name__ == 'MainPoint':
        v.x = intern_all(v.x)
    return v


def _spell(sig, binding, form):
    a, k = S.spell_full(sig, binding, form)
    return tuple(intern_all(x) for x in a), dict((sys.intern(n), intern_all(x)) for n, x in k.items())


def compute_keys(items, which):
    """in a worker: for each item the key of spelling forms[which]; returns list of dicts"""
    import klepto
    out = []
    for it in items:
        sig = it['sig']
        fn = S.make_plain(sig)
        a, k = _spell(sig, it['binding'], it['forms'][which])
        rec = {}
        try:
            ba = inspect.signature(fn).bind(*a, **k)
            ba.apply_defaults()
            bound = list(ba.arguments.items())
            rec['input'] = (repr(bound), pickle.dumps(bound, 2).hex())
        except Exception as e:
            rec['input'] = ('unbindable', repr(e))
        try:
            km = H.make_keymap(it['keymap'])
            if it.get('pre') == 'gen' and which == 1:
                try:
                    km((i for i in range(2)))
                except Exception:
                    pass
                rec['pre'] = True
            if it['path'] == 'fkey':
                f = H.decorator_class(it['module'], it['algo'])(keymap=km)(fn)
                key = f.key(*a, **k)
            else:
                key = klepto.keygen(keymap=km)(fn)(*a, **k)
            rec['key'] = repr(key)
            rec['type'] = type(key).__name__
        except Exception as e:
            rec['exc'] = '%s: %r' % (exc_sig(e), e)
        out.append(rec)
    return out


def _decorate(case, root, log):
    sig = case['sig']

    def body(named, va, vk):
        c = (tuple((n, V.canon(v)) for n, v in named), tuple(V.canon(v) for v in va), tuple(sorted((k, V.canon(v)) for k, v in vk.items())))
        log.append(c)
        return H.result_of(c, 'str')
    fn = S.make_plain(sig, body)
    c = A.open_archive(case['cfg'], root, 'S', cached=True)
    kw = dict(cache=c, keymap=H.make_keymap(case['keymap']))
    cls = H.decorator_class(case['module'], case['algo'])
    if case['algo'] not in ('inf', 'no'):
        kw['maxsize'] = case['maxsize']
    return cls(**kw)(fn), c


def session_run(case, root, which):
    log = []
    f, c = _decorate(case, root, log)
    res = []
    calls = case['calls'] if which == 0 else list(reversed(case['calls']))
    for call in calls:
        a, k = _spell(case['sig'], call['binding'], call['forms'][which])
        res.append(f(*a, **k))
    if which == 0:
        f.dump()
    info = f.info()
    conn = getattr(c.archive, '_conn', None)
    if conn is not None:
        conn.close()
    if which == 1:
        res.reverse()
    return res, len(log), (info.hit, info.miss, info.load)


# ------------------------------------------------------------ harness side

def run_case(case):
    if case['mode'] == 'keys':
        return _keys(case)
    return _sessions(case)


def _keys(case):
    items = case['items']
    classes = ['mode:keys']
    recs = []
    for i in range(3):
        r = worker(i).request({'cmd': 'call', 'mod': 'props.c17', 'fn': 'compute_keys', 'args': {'items': items, 'which': i}}, timeout=120)
        recs.append(r[1])
    out = []
    nts = Multi()
    nts.evals = len(items)
    for j, it in enumerate(items):
        r0, r1, r2 = recs[0][j], recs[1][j], recs[2][j]
        kmtag = '%s%s%s%s%s%s' % (it['keymap']['cls'], '-' + str(it['keymap']['opt']) if it['keymap']['opt'] else '', '' if it['keymap']['flat'] else '-nonflat',
                                  '-typed' if it['keymap']['typed'] else '', '-sentinel' if it['keymap']['sentinel'] else '',
                                  ('+then-' + it['keymap']['then']['cls']) if it['keymap'].get('then') else '')
        classes.append('key_triple')
        if r0['input'][0] == 'unbindable':
            raise RuntimeError('generator produced an unbindable call: %r' % (it,))
        if not (r0['input'] == r1['input'] == r2['input']):
            classes.append('input_process_dependent_discarded')
            continue
        classes.append('keymap:' + it['keymap']['cls'])
        if any('exc' in r for r in (r0, r1, r2)):
            ex = [r.get('exc') for r in (r0, r1, r2)]
            if ex[0] and ex[1] and ex[2] and ex[0].split(':')[0] == ex[1].split(':')[0] == ex[2].split(':')[0]:
                classes.append('key_raises_everywhere')      # e.g. unhashable argument under a raw keymap: not a stability matter
                continue
            out.append(Discrepancy('C17/%s/%s/key-raises-in-some-interpreters' % (it['path'], kmtag), repr(ex)))
            continue
        ks = [r0['key'], r1['key'], r2['key']]
        if not (ks[0] == ks[1] == ks[2]):
            out.append(Discrepancy('C17/%s/%s/key-differs-between-interpreters' % (it['path'], kmtag),
                                   'sig %r binding %r forms %r: keys %r' % (it['sig'], it['binding'], it['forms'], ks)))
            continue
        del classes_seen[:]
        has_str = _has_str(it['binding'])
        classes.extend(set(classes_seen))
        a0, k0 = S.spell_full(it['sig'], it['binding'], it['forms'][0])
        if has_str:
            classes.append('has_str')
        if len(k0) >= 2:
            classes.append('two_keywords')
        if has_str and len(k0) >= 2:
            nts.append((kmtag, it['path'], sorted((k, len(v) if isinstance(v, list) else v) for k, v in it['sig'].items()), it['forms']))
    return out, nts, classes


classes_seen = []


def _has_str(b):
    def hs(spec):
        if spec[0] == 's':
            return True
        if spec[0] == 'M':
            classes_seen.append('main_class_instance')
            return hs(spec[1])
        if spec[0] in 'tl':
            return any(hs(x) for x in spec[1])
        if spec[0] == 'd':
            return any(hs(k) or hs(v) for k, v in spec[1])
        return False
    vals = [s for _, s in b.get('named', [])] + list(b.get('xpos', [])) + [s for _, s in b.get('kwonly', [])] + [s for _, s in b.get('xkw', [])]
    return any(hs(s) for s in vals)


def _sessions(case):
    out, nts, classes = [], Multi(), ['mode:sessions']
    nts.evals = len(case['cases'])
    for c in case['cases']:
        d, nt, cl = _session(c)
        out += d
        classes += cl
        if nt is not None:
            nts.append(nt)
    return out, nts, classes


def _session(case):
    root = tempfile.mkdtemp(prefix='c17_', dir=_tmproot())
    cfg = case['cfg']
    classes = ['session', 'session-cfg:' + cfg, 'session-keymap:' + case['keymap']['cls']]
    if A.is_dir(cfg) and case['keymap']['cls'] in ('stringmap', 'keymap'):
        classes.append('session_dir_text_keys')
    out = []
    try:
        w = worker(1).request({'cmd': 'call', 'mod': 'props.c17', 'fn': 'session_try', 'args': {'case': case, 'root': root, 'which': 0}}, timeout=120)[1]
        if w[0] != 'ok':
            # the call itself is not servable under this configuration (e.g. unhashable raw key): not a stability matter
            classes.append('session_writer_raised')
            return out, None, classes
        res, n, info = w[1]
        r = worker(2).request({'cmd': 'call', 'mod': 'props.c17', 'fn': 'session_try', 'args': {'case': case, 'root': root, 'which': 1}}, timeout=120)[1]
        if r[0] != 'ok':
            out.append(Discrepancy('C17/session/%s/reader-raised' % cfg, r[1]))
            return out, None, classes
        res2, n2, info2 = r[1]
        kmtag = case['keymap']['cls'] + ('' if case['keymap']['flat'] else '-nonflat')
        if res2 != res:
            out.append(Discrepancy('C17/session/%s/%s/results-differ' % (cfg, kmtag), '%r vs %r' % (res2, res)))
        elif n2 != 0 or info2[1] != 0:
            out.append(Discrepancy('C17/session/%s/%s/later-session-recomputed' % (cfg, kmtag), 'reader: %d evaluations, hit/miss/load %r; writer %d evaluations %r; calls %r' % (
                n2, info2, n, info, case['calls'])))
        differ = any(S.spell_full(case['sig'], c['binding'], c['forms'][0]) != S.spell_full(case['sig'], c['binding'], c['forms'][1]) for c in case['calls'])
        if differ:
            classes.append('session_other_spelling')
        return out, ((cfg, kmtag, case['algo'], len(case['calls']), [c['forms'] for c in case['calls']]) if differ else None), classes
    finally:
        shutil.rmtree(root, ignore_errors=True)


def session_try(case, root, which):
    try:
        return ('ok', session_run(case, root, which))
    except Exception as e:
        import traceback
        return ('exc', '%r\n%s' % (e, traceback.format_exc()[-1500:]))


REQUIRED_CLASSES = ['session_dir_text_keys', 'main_class_instance', 'mode:keys', 'mode:sessions', 'has_str', 'two_keywords', 'session_other_spelling', 'keymap:keymap', 'keymap:stringmap', 'keymap:picklemap', 'keymap:hashmap'] + \
    ['session-cfg:' + c for c in SESSION_CFGS]
TRIGGERS = {}
