"""C20 a pickled cached function resumes exactly where the original was."""
import os, shutil, random
from hypothesis import strategies as st
from harness import cachehist as H, cachegen as G
from harness.core import Discrepancy
from props._cc import has, base_classes, same, outcome

PROP = 'C20'
LEVEL = 'exploration'
RULE = ("stratified cases over all 12 decorators x purge x backends that pickle {none, plain dict, null/dict archive, file pkl/json/src, dir "
        "dill/fast/z/json/src; cached or direct} x keymaps x tol{None,0,1} x ignore x prefix history x continuation history. g = dill.loads(dill.dumps(f)) "
        "must have equal cache contents, info(), mask, keymap repr; then the continuation is applied to f, persistent storage is rewound to its state at "
        "pickling time, the continuation is applied to g, and the two traces must agree step by step (results, residents, archive, info, evaluations; "
        "RR with identical seeds). Independence: g's continuation leaves f's residents/info untouched and vice versa; for persistent archives an entry "
        "dumped by g is visible through f's archive. non-trivial = the prefix left non-trivial bookkeeping (a hit that reorders, an eviction or purge) and "
        "the continuation overflows or loads; distinct = (class, backend, tol, prefix/continuation outcome sequences)")
ASSUMPTIONS = ['sqlite handles do not pickle: outside "picklable archive backends"',
               'generated functions are pickled by value by dill together with their evaluation log',
               'persistent storage is rewound between the two continuations so that sharing the store does not make lock-step runs interfere']

N = {'quick': 450, 'thorough': 2500}
SHARDS = {'quick': 4, 'thorough': 16}

BACKENDS = tuple(b for b in H.BACKENDS_ALL if 'sql' not in b)


def strata(tier):
    out = []
    for name, strat in G.strata_grid(
            maxsizes=(2, 1, 3, None, 0), backends=BACKENDS,
            weights={'call': 14, 'burst': 1, 'load': 1, 'dump': 1, 'clear': 0, 'clearkeep': 0, 'arch_off': 1, 'arch_on': 1, 'dumpk': 0,
                     'loadk': 0, 'awrite': 1},
            max_ops=14 if tier == 'quick' else 30, min_ops=2, pool=(3, 7), tols=(None, None, 0, 1), deeps=(False, True),
            ignores=(None, None, None, ['y'], [0], ['**']), float_pct=6, prefill_pct=15):
        out.append((name, with_continuation(strat, tier)))
    return out


@st.composite
def with_continuation(draw, strat, tier):
    case = draw(strat)
    w = dict(G.DEFAULT_WEIGHTS)
    w.update({'call': 14, 'burst': 0, 'load': 1, 'dump': 1, 'clear': 0, 'clearkeep': 0, 'arch_off': 1, 'arch_on': 2, 'arch_query': 1, 'dumpk': 0, 'loadk': 0})      # archive toggling after the round trip: the clone's parked / attached archive bookkeeping must have survived pickling
    case['cont'] = draw(G.op_lists(w, len(case['pool']), 2, 12 if tier == 'quick' else 25))
    case['cont2'] = draw(G.op_lists({'call': 1}, len(case['pool']), 1, 5))
    return case


class CloneSession(object):
    def __init__(self, cfg, g):
        self.cfg = cfg
        self.f = g
        self.fn = g.__wrapped__.__globals__['_body'].__self__
        self.cache = g.__cache__()
        self.call_args = lambda op: H.spell(cfg['sig'], cfg['pool'][op[1] % len(cfg['pool'])], op[2] if len(op) > 2 else 0)


def _same_state(a, b):
    if a is None or b is None:
        return a is b
    if len(a) != len(b):
        return False
    for k, v in a.items():
        if not has(b, k) or not same(b[k], v):
            return False
    return True


def _snapshot(sess):
    return H.mem_snapshot(sess.cache), H.arch_snapshot(sess.cache), H.info_tuple(sess.f)


def run_case(case):
    import dill
    classes = base_classes(case) + ['tol:%r' % (case.get('tol'),)]
    out = []
    flags = {'prefix_hit': 0, 'prefix_evict': 0, 'cont_overflow': 0, 'cont_load': 0, 'shared_store_visible': 0}
    algo = H.effective_algo(case)
    with H.Scratch() as sc:
        root = os.path.join(sc.path, 'store')
        os.makedirs(root)
        try:
            sess = H.Session(case, root)
        except Exception as e:
            return [Discrepancy('C20/decorate/%s' % H.exc_sig(e), repr(e))], None, classes
        tr = H.Trace(case)
        prev = None
        for op in H.expand_ops(case['ops']):
            prev = H.apply_op(sess, op, tr, prev=prev)
            if prev.exc is not None and not (prev.kind in ('arch_on', 'arch_off') and isinstance(prev.exc, ValueError)):
                return [Discrepancy('C20/prefix/%s/raised/%s' % (prev.kind, H.exc_sig(prev.exc)), repr(prev.exc))], None, classes
            if prev.kind == 'call':
                oc = outcome(prev, algo)
                if oc == 'hit':
                    flags['prefix_hit'] += 1
                if not has(prev.pre_mem, prev.key) and len(prev.post_mem) <= len(prev.pre_mem):
                    flags['prefix_evict'] += 1
        # ---- round trip
        before = _snapshot(sess)
        try:
            blob = dill.dumps(sess.f)
        except Exception as e:
            return [Discrepancy('C20/%s/dumps-raised/%s' % (algo, type(e).__name__), repr(e))], None, classes
        bak = os.path.join(sc.path, 'bak')
        shutil.copytree(root, bak)
        try:
            g0 = dill.loads(blob)
        except Exception as e:
            return [Discrepancy('C20/%s/loads-raised/%s' % (algo, type(e).__name__), repr(e))], None, classes
        c0 = CloneSession(case, g0)
        fm, fa, fi = _snapshot(sess)
        try:
            gm, ga, gi = _snapshot(c0)
        except Exception as e:
            return [Discrepancy('C20/%s/clone-state-unreadable/%s' % (algo, H.exc_sig(e)), 'reading the restored copy\'s cache / archive / info raised %r' % (e,))], None, classes
        if not (_same_state(before[0], fm) and _same_state(fm, before[0]) and _same_state(before[1], fa) and _same_state(fa, before[1]) and before[2] == fi):
            # serialising and restoring is an observation: the original's memory, statistics and the (shared) stored contents are what they were
            out.append(Discrepancy('C20/%s/round-trip-changed-original-or-store' % algo, 'before: residents %r archive %r info %r ; after: %r %r %r' % (
                sorted(map(repr, before[0] or {})), sorted(map(repr, before[1] or {})), before[2], sorted(map(repr, fm or {})), sorted(map(repr, fa or {})), fi)))
        elif not _same_state(fm, gm):
            out.append(Discrepancy('C20/%s/clone-cache-contents-differ' % algo, '%r vs %r' % (fm, gm)))
        elif not _same_state(fa, ga):
            out.append(Discrepancy('C20/%s/clone-archive-contents-differ' % algo, '%r vs %r' % (fa, ga)))
        elif fi != gi:
            out.append(Discrepancy('C20/%s/clone-info-differs' % algo, '%r vs %r' % (fi, gi)))
        elif repr(sess.f.__map__()) != repr(g0.__map__()) or sess.f.__mask__() != g0.__mask__():
            out.append(Discrepancy('C20/%s/clone-config-differs' % algo, '%r %r vs %r %r' % (sess.f.__map__(), sess.f.__mask__(), g0.__map__(), g0.__mask__())))
        elif type(sess.cache.archive).__name__ != type(c0.cache.archive).__name__ or \
                getattr(sess.cache.archive, 'state', None) != getattr(c0.cache.archive, 'state', None):
            out.append(Discrepancy('C20/%s/clone-archive-settings-differ' % algo, '%r vs %r' % (
                getattr(sess.cache.archive, 'state', None), getattr(c0.cache.archive, 'state', None))))
        if out:
            return out, None, classes
        # ---- continuation on the original
        cont = H.expand_ops(case['cont'])
        tf = H.Trace(case)
        prev = None
        for op in cont:
            prev = H.apply_op(sess, op, tf, prev=prev)
        f_end = _snapshot(sess)
        # ---- rewind persistent storage, continuation on a fresh clone
        shutil.rmtree(root)
        shutil.copytree(bak, root)
        g = dill.loads(blob)
        cl = CloneSession(case, g)
        tg = H.Trace(case)
        prev = None
        for op in cont:
            prev = H.apply_op(cl, op, tg, prev=prev)
        ev = []
        for i, (s, t) in enumerate(zip(tf.steps, tg.steps)):
            what = None
            if (s.exc is None) != (t.exc is None) or (s.exc is not None and type(s.exc) is not type(t.exc)):
                what = 'exception'
            elif s.kind == 'call' and not same(s.result, t.result):
                what = 'result'
            elif not _same_state(s.post_mem, t.post_mem):
                what = 'residents'
            elif not _same_state(s.post_arch, t.post_arch):
                what = 'archive'
            elif s.post_info != t.post_info:
                what = 'info'
            elif s.evals != t.evals:
                what = 'evaluations'
            if what:
                out.append(Discrepancy('C20/%s/continuation-diverges/%s' % (algo, what),
                                       'continuation step %d %r: original -> result %r exc %r residents %r info %r ; clone -> result %r exc %r residents %r info %r' % (
                                           i, s.op, s.result, s.exc, sorted(map(repr, s.post_mem or {})), s.post_info,
                                           t.result, t.exc, sorted(map(repr, t.post_mem or {})), t.post_info)))
                return out, None, classes
            if s.kind == 'call' and s.exc is None:
                oc = outcome(s, algo)
                if oc == 'load':
                    flags['cont_load'] += 1
                if not has(s.pre_mem, s.key) and len(s.post_mem) <= len(s.pre_mem):
                    flags['cont_overflow'] += 1
                ev.append(oc[0])
        # ---- independence: g's run did not touch f's in-memory state
        fm2, fa2, fi2 = _snapshot(sess)
        shared_cache = case['backend'].startswith('direct_') and H.backend_persistent(case['backend'])   # the cache IS the shared store
        if (not shared_cache and not _same_state(f_end[0], fm2)) or f_end[2][:3] != fi2[:3]:
            out.append(Discrepancy('C20/%s/clone-run-changed-original' % algo, 'original residents/info %r %r -> %r %r' % (
                sorted(map(repr, f_end[0])), f_end[2], sorted(map(repr, fm2)), fi2)))
            return out, None, classes
        # second continuation on the clone only; then on the original only
        g_before = _snapshot(cl)
        t2 = H.Trace(case)
        prev = None
        for op in H.expand_ops(case['cont2']):
            prev = H.apply_op(sess, op, t2, prev=prev)
        gm3, ga3, gi3 = _snapshot(cl)
        if (not shared_cache and not _same_state(g_before[0], gm3)) or g_before[2][:3] != gi3[:3]:
            out.append(Discrepancy('C20/%s/original-run-changed-clone' % algo, 'clone residents/info changed while only the original was called'))
            return out, None, classes
        # persistent archive stays shared storage
        if H.backend_persistent(case['backend']) and H.backend_archived(case['backend']) and sess.cache.archived() and cl.cache.archived():
            try:
                sess.f.dump()
                seen_by_clone = H.arch_snapshot(cl.cache)
                mine = H.mem_snapshot(sess.cache)
                missing = [k for k in mine if not has(seen_by_clone, k)]
                if missing:
                    out.append(Discrepancy('C20/%s/persistent-archive-not-shared' % algo, 'entries dumped by the original are not visible through the clone: %r' % missing))
                    return out, None, classes
                if mine:
                    flags['shared_store_visible'] += 1
            except Exception as e:
                out.append(Discrepancy('C20/%s/shared-archive-raised/%s' % (algo, H.exc_sig(e)), repr(e)))
                return out, None, classes
        H._close(sess.cache)
    classes += [k for k, v in flags.items() if v]
    nt = None
    if (flags['prefix_hit'] or flags['prefix_evict']) and (flags['cont_overflow'] or flags['cont_load']):
        nt = (case['module'], case['algo'], case['backend'], case.get('tol'), [s.kind[0] for s in tr.steps], ev)
    return out, nt, sorted(set(classes))


REQUIRED_CLASSES = ['prefix_hit', 'prefix_evict', 'cont_overflow', 'cont_load', 'shared_store_visible', 'tol:0', 'tol:1',
                    'backend:cache_file_json', 'backend:cache_dir_dill', 'eff_algo:lfu', 'eff_algo:mru', 'eff_algo:rr', 'module:safe']
TRIGGERS = {}
