"""C05 capacity: a bounded cache never grows past its bound."""
from hypothesis import strategies as st
from harness import cachehist as H, cachegen as G
from harness.core import Discrepancy

PROP = 'C05'
LEVEL = 'exploration'
RULE = ("cases = (decorator class x maxsize{0,None,1..6} passed positionally or by keyword x purge x backend x keymap "
        "x generated function x history of calls/load/dump/clear/toggles); per call: size_after <= max(maxsize, size_before), "
        "maxsize 0 => 0 resident, None => nothing leaves, purge+archived+overflow => 0 resident. non-trivial = the history "
        "contains an overflow (size_before >= maxsize and the call adds a key) or a call made while size_before > maxsize "
        "(after a bulk load over-fill); distinct = (class, maxsize spelling, purge, backend family, sequence of op kinds and "
        "per-call size transitions)")
ASSUMPTIONS = ['sizes observed through len(f.__cache__()) / f.info().size only',
               'hdf/sqlalchemy back ends not installed, not explored']

QUICK_N, THOROUGH_N = 400, 2500


def _with_scenario(pair):
    case, pick = pair
    if case.get('attach_later') and isinstance(case['maxsize'], int) and case['maxsize'] >= 1:
        # the archive arrives through f.archive(obj) after decoration (at once, or after a few calls) and the cache then overflows:
        # with purge enabled the overflow must empty the in-memory cache exactly as if the archive had been there from the start
        n = len(case['pool'])
        pre = ([['call', 0, 0, 0]] if pick else []) + [['attach'], ['sweep', 0, n], ['sweep', 1, n]]
        return dict(case, ops=pre + [op for op in case['ops'] if op[0] != 'attach'])
    if pick == 1 and isinstance(case['maxsize'], int) and case['maxsize'] >= 2:
        # fill past the bound, reset with clear(keepstats=True) (or clear()), fill again with every pool entry: bookkeeping that survives a
        # reset must not let the cache grow past its bound afterwards
        n = len(case['pool'])
        case = dict(case, ops=[['sweep', 0, n], ['clearkeep'], ['sweep', 1, n], ['sweep', 0, n]] + list(case['ops']))
    elif pick == 2 and isinstance(case['maxsize'], int) and case['maxsize'] >= 2:
        n = len(case['pool'])
        case = dict(case, ops=[['sweep', 0, n], ['clear'], ['sweep', 2, n]] + list(case['ops']))
    return case


def run_reentrant(case):
    """the function calls its own decorated self while being evaluated (depth <= 2), also with the same arguments; after every completed
    top-level call the bound must hold and the value must be right"""
    import os
    import klepto.archives as KA
    out = []
    algo = case['algo']
    classes = ['part:reent', 'module:' + case['module'], 'eff_algo:' + algo, 'reent_arch:' + case['arch']]
    plan, box, state = case['plan'], {}, {'depth': 0, 'nested': 0, 'overflow': 0}

    def body(x):
        if state['depth'] < 2:
            state['depth'] += 1
            try:
                for y in plan[x]:
                    r = box['f'](y)
                    state['nested'] += 1
                    if r != ('r', y):
                        out.append(Discrepancy('C05/reentrant/%s/wrong-nested-result' % algo, 'f(%d) inside f(%d) returned %r' % (y, x, r)))
            finally:
                state['depth'] -= 1
        return ('r', x)
    with H.Scratch() as sc:
        kw = {}
        if case['arch'] == 'dict':
            kw['cache'] = KA.dict_archive('reent', cached=True)
        elif case['arch'] == 'dir':
            kw['cache'] = KA.dir_archive(os.path.join(sc.path, 'reent'), cached=True, serialized=True)
        ms = case['maxsize']
        kw.update(maxsize=ms, purge=case['purge'])
        f = box['f'] = H.decorator_class(case['module'], algo)(**kw)(body)
        seen = set()
        for i, x in enumerate(case['calls']):
            if x < 0:
                f.clear(keepstats=(x == -2))
                continue
            before = len(f.__cache__())
            try:
                r = f(x)
            except Exception as e:
                out.append(Discrepancy('C05/reentrant/%s/call-raised/%s' % (algo, H.exc_sig(e)), 'call %d f(%d) plan %r: %r' % (i, x, plan, e)))
                break
            after = len(f.__cache__())
            seen.add(x)
            seen.update(plan[x])
            if len(seen) > ms:
                state['overflow'] += 1
            if r != ('r', x):
                out.append(Discrepancy('C05/reentrant/%s/wrong-result' % algo, 'f(%d) returned %r' % (x, r)))
            elif after > max(ms, before):
                out.append(Discrepancy('C05/reentrant/%s/bound-exceeded' % algo, 'call %d of %r (plan %r, maxsize %d): %d resident before, %d after' % (i, case['calls'], plan, ms, before, after)))
            if out:
                break
    if state['nested']:
        classes.append('reentrant_call')
    nt = ('reent', case['module'], algo, case['arch'], ms, case['purge'], tuple(map(tuple, plan)), tuple(case['calls'])) if state['nested'] and state['overflow'] else None
    return out[:1], nt, classes


def strata(tier):
    from props.c15 import reentrant_cases
    return [('reentrant/' + a, reentrant_cases(a)) for a in ('lru', 'mru', 'lfu', 'rr')] + _strata_main(tier)


def _strata_main(tier):
    return [(n, st.tuples(s, st.sampled_from([0, 0, 0, 1, 1, 2])).map(_with_scenario)) for n, s in _strata(tier)]


def _strata(tier):
    return G.strata_grid(
        maxsizes=(2, 1, 3, 5, 6, 0, None), ms_pos=(False, True), max_ops=35 if tier == 'quick' else 60,
        weights={'call': 14, 'load': 3, 'dump': 2, 'loadk': 1, 'dumpk': 1, 'clear': 1, 'clearkeep': 2, 'awrite': 2, 'burst': 2, 'sweep': 3, 'arch_off': 1, 'arch_on': 1},
        pool=(3, 11), prefill_pct=30, raising_pct=20, attach_later_pct=20)


def execute(case):
    tr = H.run_history(case)
    return check(case, tr)


def check(case, tr):
    out = []
    cfg = case
    if tr.setup_exc is not None:
        out.append(Discrepancy('C05/decorate/%s' % H.exc_sig(tr.setup_exc),
                               'construction/decoration raised %r for maxsize=%r positional=%r' % (tr.setup_exc, cfg['maxsize'], cfg['ms_pos'])))
        return out
    ms = H.effective_maxsize(cfg)
    purge = H.effective_purge(cfg)
    algo = H.effective_algo(cfg)
    for i, s in enumerate(tr.steps):
        if s.kind != 'call':
            if s.exc is not None and s.kind in ('load', 'dump', 'loadk', 'dumpk', 'clear', 'clearkeep'):
                out.append(Discrepancy('C05/%s/%s' % (s.kind, H.exc_sig(s.exc)), 'step %d %r raised %r' % (i, s.op, s.exc)))
                return out
            continue
        if s.expected_exc is not None and s.exc is s.expected_exc:
            # the function itself raised: nothing may have been stored, and the bound still holds
            if len(s.post_mem) > max(len(s.pre_mem), ms if isinstance(ms, int) else 0) and ms is not None:
                out.append(Discrepancy('C05/%s/grows-past-bound' % algo, 'step %d: raising call, size %d -> %d' % (i, len(s.pre_mem), len(s.post_mem))))
                return out
            continue
        if s.exc is not None:
            out.append(Discrepancy('C05/call/%s/%s' % (algo, H.exc_sig(s.exc)),
                                   'step %d: call raised %r (size_before=%d maxsize=%r)' % (i, s.exc, len(s.pre_mem), ms)))
            return out
        b, a = len(s.pre_mem), len(s.post_mem)
        if s.post_info[4] != a:
            out.append(Discrepancy('C05/info-size', 'step %d: info().size=%r but %d resident' % (i, s.post_info[4], a)))
        if ms == 0:
            if a != 0:
                out.append(Discrepancy('C05/maxsize0-resident', 'step %d: %d resident with maxsize 0' % (i, a)))
        elif ms is None:
            # membership, not repr: a key holding a frozenset may print its elements in another order after a codec round trip
            gone = [k for k in s.pre_mem if not _has(s.post_mem, k)]
            if gone:
                out.append(Discrepancy('C05/maxsizeNone-evicts', 'step %d: %s left an unbounded cache' % (i, sorted(map(repr, gone)))))
        else:
            if a > max(ms, b):
                out.append(Discrepancy('C05/%s/grows-past-bound' % algo,
                                       'step %d: size %d -> %d with maxsize %d' % (i, b, a, ms)))
            adds = s.key_exc is None and not _has(s.pre_mem, s.key)
            if purge and s.pre_arch is not None and adds and b + 1 > ms:
                if a != 0:
                    out.append(Discrepancy('C05/%s/purge-not-empty' % algo,
                                           'step %d: overflow with purge on archived cache left %d resident' % (i, a)))
        if out:
            return out
    return out


def _has(d, k):
    try:
        return k in d
    except TypeError:
        return False


def classify(case, tr):
    """(nontrivial_key | None, classes)"""
    classes = ['algo:' + case['algo'], 'module:' + case['module'], 'backend:' + case['backend'],
               'maxsize:%r' % (case['maxsize'],), 'ms_pos:%r' % case['ms_pos'], 'purge:%r' % case['purge']]
    if tr.setup_exc is not None:
        return None, classes
    ms = H.effective_maxsize(case)
    nt = False
    seq = []
    for opk in set(o[0] for o in case['ops']):
        if opk in ('sweep', 'clearkeep', 'burst'):
            classes.append('op:' + opk)
    raised = False
    for s in tr.steps:
        if s.kind == 'call' and s.expected_exc is not None:
            if not raised:
                classes.append('raising_call')
            raised = True
        elif s.kind == 'call' and raised and isinstance(ms, int) and ms > 0 and s.pre_mem is not None and len(s.pre_mem) >= ms and not _has(s.pre_mem, s.key):
            classes.append('overflow_after_raising_call')
            raised = False
        if s.kind != 'call' or s.pre_mem is None or s.post_mem is None:
            seq.append(s.kind)
            continue
        b, a = len(s.pre_mem), len(s.post_mem)
        seq.append('c%d>%d' % (b, a))
        if isinstance(ms, int) and ms > 0:
            adds = s.key_exc is None and not _has(s.pre_mem, s.key)
            if adds and b >= ms:
                nt = True
                classes.append('overflow')
                if s.pre_arch is not None and H.effective_purge(case):
                    classes.append('overflow_purge_archived')
            if b > ms:
                nt = True
                classes.append('call_while_overfull')
        elif ms == 0 and s.pre_arch is not None:
            classes.append('nocache_archived_call')
            nt = True
        elif ms is None and b >= 3:
            classes.append('unbounded_growth')
            nt = True
    classes = sorted(set(classes))
    if not nt:
        return None, classes
    key = (case['module'], case['algo'], repr(case['maxsize']), case['ms_pos'], case['purge'],
           case['backend'].split('_')[0:2], seq)
    return key, classes


def extra_passes(run, tier, shard, nshards):
    from props._cc import exhaustive_sweep
    exhaustive_sweep(run, tier, shard, nshards, lambda case, tr: check(case, tr))


REQUIRED_CLASSES = ['reentrant_call', 'overflow', 'call_while_overfull', 'overflow_purge_archived', 'ms_pos:True', 'maxsize:0', 'maxsize:None', 'raising_call', 'overflow_after_raising_call', 'op:sweep', 'op:clearkeep']

TRIGGERS = {}

N = {'quick': 500, 'thorough': 4000}
SHARDS = {'quick': 4, 'thorough': 16}


def run_case(case):
    if case.get('part') == 'reent':
        return run_reentrant(case)
    tr = H.run_history(case)
    discrs = check(case, tr)
    nt, classes = classify(case, tr)
    return discrs, nt, classes
