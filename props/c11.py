"""C11 ignored arguments never influence the key; all others still do."""
import copy, functools
from hypothesis import strategies as st
from harness import cachehist as H, values as V, sigs as S
from harness.core import Discrepancy
from props.c09 import KEYMAPS, kmtag, shape, rest_sig

PROP = 'C11'
LEVEL = 'exploration'
RULE = ("cases = generated signature x kind {function, method (first argument passed explicitly, or a REAL method installed in a class and called through instances that differ in identity and truthiness), partial} x ignore spec (subset of parameter names incl. keyword-only ones, positional indices "
        "incl. indices beyond the named parameters, '*', '**', the instance name for methods; given as tuple, list or bare str/int) x keymap x path "
        "{f.key, klepto.keygen, klepto._keygen+keymap, real calls} x pair of calls (B2 = B1 with 1-3 edits: change a named / keyword-only / extra "
        "positional / extra keyword value, add or drop extras). Oracle = independent selector over Python's own binding: a position is ignored iff its "
        "name is listed, or its positional index is listed, or it is an extra positional and '*' is listed, or an extra keyword and '**' is listed. "
        "Pair differs only in ignored positions => same key and the second real call is not evaluated. Otherwise => keys differ whenever the same "
        "pair, with its ignored positions equalised, gets different keys with ignore=() (same keymap). non-trivial = the spec mixes >= 2 kinds of "
        "selector and the signature has keyword-only parameters or **kw; distinct = (signature shape, spec, keymap, path, which positions differ)")
ASSUMPTIONS = ['for methods, the instance is selected either by name (then no index selectors are mixed in: the code shifts them, the statement does not say which way) or by index 0 in an index-only specification',
               'the number of extra positionals / the set of extra keyword names counts as non-ignored unless * / ** is listed']

N = {'quick': 2500, 'thorough': 20000}
FUZZ_SECONDS = 180      # thorough tier: coverage-guided campaign over the same strategy and oracle (tools/fuzz.py)
SHARDS = {'quick': 4, 'thorough': 16}
PATHS = ['fkey', 'keygen', '_keygen', 'call']
KMS = [k for k in KEYMAPS if not (k['cls'] == 'hashmap' and not k['opt'])]


@st.composite
def ignore_specs(draw, sig, kind):
    names = H.sig_names(sig) + list(sig.get('kwreq', [])) + [n for n, _ in sig.get('kwopt', [])]
    nn = len(H.sig_names(sig))
    pool = []
    for n in names:
        pool.append(n)
    for i in range(nn + 3):
        pool.append(i)
    pool += ['*', '**', '*', '**']
    if sig.get('varkw'):
        pool += S.XKW[:2] + ['func', 'key', 'ignored']       # multi-letter names whose letters are parameter names themselves
    if kind != 'method' and nn and draw(st.integers(0, 7)) == 0:
        # the bare (non-sequence) spellings: a single index or a single name
        return {'items': [draw(st.sampled_from([0, 0, nn - 1, H.sig_names(sig)[0]]))], 'style': 'bare'}
    if kind == 'method' and draw(st.integers(0, 3)) == 0:
        # the instance (and other parameters) selected by positional INDEX only: index 0 is the instance
        items = draw(st.lists(st.integers(0, nn + 2), min_size=1, max_size=3, unique=True))
        return {'items': items, 'style': 'bare' if (len(items) == 1 and draw(st.booleans())) else 'tuple'}
    if kind == 'method':
        items = draw(st.lists(st.sampled_from([x for x in pool if not isinstance(x, int)] + ['self', 'self']), min_size=1, max_size=4, unique=True))
    else:
        items = draw(st.lists(st.sampled_from(pool), min_size=1, max_size=4, unique_by=repr))
    style = draw(st.sampled_from(['tuple', 'tuple', 'list', 'bare']))
    if style == 'bare' and len(items) == 1:
        return {'items': items, 'style': 'bare'}
    return {'items': items, 'style': 'list' if style == 'list' else 'tuple'}


def spec_value(spec):
    if spec['style'] == 'bare':
        return spec['items'][0]
    return list(spec['items']) if spec['style'] == 'list' else tuple(spec['items'])


@st.composite
def edit_pair(draw, rest, b, vals):
    b2 = copy.deepcopy(b)
    kinds = []
    for _ in range(draw(st.integers(1, 3))):
        slots = [('named', i) for i in range(len(b2.get('named', [])))] + [('xpos', i) for i in range(len(b2.get('xpos', [])))] + \
                [('kwonly', i) for i in range(len(b2.get('kwonly', [])))] + [('xkw', i) for i in range(len(b2.get('xkw', [])))]
        structural = []
        if rest.get('varargs') and len(b2.get('named', [])) == len(rest['req']) + len(rest['opt']):
            structural += ['add_xpos'] + (['drop_xpos'] if b2.get('xpos') else [])
        if rest.get('varkw'):
            structural += ['add_xkw'] + (['drop_xkw'] if b2.get('xkw') else [])
        opts = (['value'] * 4 if slots else []) + structural
        if not opts:
            break
        c = draw(st.sampled_from(opts))
        if c == 'value':
            kind, i = slots[draw(st.integers(0, len(slots) - 1))]
            v = draw(vals)
            if kind == 'xpos':
                b2[kind][i] = v
            else:
                b2[kind][i][1] = v
            kinds.append(kind)
        elif c == 'add_xpos':
            b2.setdefault('xpos', []).append(draw(vals))
            kinds.append(c)
        elif c == 'drop_xpos':
            b2['xpos'].pop()
            kinds.append(c)
        elif c == 'add_xkw':
            free = [n for n in S.XKW if n not in [k for k, _ in b2.get('xkw', [])]]
            if free:
                b2.setdefault('xkw', []).append([free[0], draw(vals)])
                kinds.append(c)
        elif c == 'drop_xkw':
            b2['xkw'].pop()
            kinds.append(c)
    return b2, kinds


@st.composite
def cases(draw, path):
    sig = draw(S.signatures())
    kind = draw(st.sampled_from(['function', 'function', 'function', 'method', 'partial']))
    if kind == 'partial' and not sig['varkw']:
        kind = 'function'
    vals = st.one_of(V.ints(), V.ints(), st.sampled_from([['s', 'a'], ['s', 'b'], ['n'], ['f', '0.5'], ['t', [['i', 1]]]]))
    b1 = draw(S.bindings(sig, vals))
    b2, ek = draw(edit_pair(sig, b1, vals))
    spec = draw(ignore_specs(sig, kind))
    km = draw(st.sampled_from(KMS))
    module = 'safe' if (km['cls'] == 'keymap' and not km['flat']) else draw(st.sampled_from(['std', 'safe']))
    insts = None
    if kind == 'method' and draw(st.booleans()):
        # a real method: the function is installed in a class, and the two calls may go through different instances (empty = falsy, or not)
        insts = [[draw(st.integers(0, 1)), draw(st.sampled_from([0, 0, 3]))], [draw(st.integers(0, 1)), draw(st.sampled_from([0, 3, 3]))]]
        if draw(st.integers(0, 2)) == 0:
            b2, ek = copy.deepcopy(b1), ['instance_only']
    pkw = []
    if kind == 'partial':
        # a functools.partial that presets extra (**kw) keywords: under '**' they are ignored like the caller's own extra keywords
        pkw = [[n, draw(vals)] for n in draw(st.lists(st.sampled_from(S.XKW[:3]), unique=True, min_size=1, max_size=2))]
    return {'sig': sig, 'kind': kind, 'insts': insts, 'pkw': pkw, 'b1': b1, 'b2': b2, 'edits': ek, 'ignore': spec, 'form1': draw(st.integers(0, 255)),
            'form2': draw(st.integers(0, 255)), 'keymap': km, 'path': path, 'module': module,
            'algo': draw(st.sampled_from(['inf', 'lru', 'lfu', 'mru', 'rr'] + H.DISPATCHED))}


def strata(tier):
    return [('path:' + p, cases(p)) for p in PATHS]


# ---------------------------------------------------------------- the independent selector

def selector(sig, kind, spec):
    items = spec['items']
    names = set(x for x in items if isinstance(x, str))
    idx = set(x for x in items if isinstance(x, int) and not isinstance(x, bool))
    pnames = (['self'] if kind == 'method' else []) + H.sig_names(sig)
    ign_named = set(n for i, n in enumerate(pnames) if n in names or i in idx)
    ign_kwonly = set(n for n in list(sig.get('kwreq', [])) + [k for k, _ in sig.get('kwopt', [])] if n in names)
    return {'named': ign_named, 'kwonly': ign_kwonly, 'star': '*' in names, 'dstar': '**' in names,
            'xpos_idx': set(i - len(pnames) for i in idx if i >= len(pnames)), 'xkw_names': names - {'*', '**'}, 'npos': len(pnames)}


def differs_only_in_ignored(sel, x, y):
    """x, y: bound-argument dicts (defaults applied). Returns (only_ignored, differing-position tags)"""
    diff = []
    only = True
    for n in x:
        if n in ('_a', '_k'):
            continue
        if not S.veq(x[n], y[n]):
            ig = n in sel['named'] or n in sel['kwonly']
            diff.append(('named:' if ig else 'NAMED:') + n)
            only = only and ig
    xa, ya = x.get('_a', ()), y.get('_a', ())
    if not sel['star']:
        if len(xa) != len(ya):
            diff.append('XPOS-COUNT')
            only = False
        for j, (p, q) in enumerate(zip(xa, ya)):
            if not S.veq(p, q):
                ig = j in sel['xpos_idx']
                diff.append('xpos%d' % j if ig else 'XPOS%d' % j)
                only = only and ig
    elif len(xa) != len(ya) or any(not S.veq(p, q) for p, q in zip(xa, ya)):
        diff.append('xpos*')
    xk, yk = x.get('_k', {}), y.get('_k', {})
    if not sel['dstar']:
        if set(xk) != set(yk):
            diff.append('XKW-NAMES')
            only = False
        for n in set(xk) & set(yk):
            if not S.veq(xk[n], yk[n]):
                ig = n in sel['xkw_names']
                diff.append('xkw:' + n if ig else 'XKW:' + n)
                only = only and ig
    elif set(xk) != set(yk) or any(not S.veq(xk[n], yk[n]) for n in set(xk) & set(yk)):
        diff.append('xkw**')
    return only, diff


def equalise(sel, sig, kind, b1, b2):
    """B2 with every ignored position overwritten by B1's value (used with ignore=())"""
    e = copy.deepcopy(b2)
    d1 = dict((n, v) for n, v in b1.get('named', []))
    named = []
    for n, v in e.get('named', []):
        named.append([n, d1[n] if (n in sel['named'] and n in d1) else v])
    # an ignored named parameter supplied in only one of the two calls: align presence with B1
    for n in sel['named']:
        if n == 'self':
            continue
        in1, in2 = n in d1, n in dict((k, v) for k, v in named)
        if in1 and not in2:
            named.append([n, d1[n]])
        elif in2 and not in1:
            named = [[k, v] for k, v in named if k != n]
    order = H.sig_names(sig)
    named.sort(key=lambda kv: order.index(kv[0]))
    e['named'] = named
    k1 = dict((n, v) for n, v in b1.get('kwonly', []))
    kw = []
    for n, v in e.get('kwonly', []):
        kw.append([n, k1[n] if (n in sel['kwonly'] and n in k1) else v])
    for n in sel['kwonly']:
        in1, in2 = n in k1, n in dict((k, v) for k, v in kw)
        if in1 and not in2:
            kw.append([n, k1[n]])
        elif in2 and not in1:
            kw = [[k, v] for k, v in kw if k != n]
    e['kwonly'] = kw
    if sel['star']:
        e['xpos'] = copy.deepcopy(b1.get('xpos', []))
    else:
        xp = list(e.get('xpos', []))
        x1 = b1.get('xpos', [])
        for j in range(min(len(xp), len(x1))):
            if j in sel['xpos_idx']:
                xp[j] = x1[j]
        e['xpos'] = xp
    if sel['dstar']:
        e['xkw'] = copy.deepcopy(b1.get('xkw', []))
    else:
        x1 = dict((n, v) for n, v in b1.get('xkw', []))
        e['xkw'] = [[n, x1[n] if (n in sel['xkw_names'] and n in x1) else v] for n, v in e.get('xkw', [])]
    if not e.get('xpos'):
        e.pop('xpos', None)
    return e


def valid_binding(sig, b):
    """extra positionals require every named parameter to be supplied"""
    if b.get('xpos') and len(b.get('named', [])) != len(H.sig_names(sig)):
        return False
    return True


def keys_for(case, target, prefix, ignore_value, calls, log):
    """keys (or call outcomes) of the given calls under the given ignore value"""
    import klepto
    km = H.make_keymap(case['keymap'])
    path = case['path']
    res = []
    if path in ('fkey', 'call'):
        kw = {'keymap': km}
        if ignore_value is not None:
            kw['ignore'] = ignore_value
        f = H.decorator_class(case['module'], case['algo'])(**kw)(target)
        for a, k in calls:
            res.append(f.key(*(prefix + a), **k))
        if path == 'call':
            evs = []
            for a, k in calls:
                n0 = len(log)
                f(*(prefix + a), **k)
                evs.append(len(log) - n0)
            return res, evs
    elif path == 'keygen':
        ig = () if ignore_value is None else (tuple(ignore_value) if isinstance(ignore_value, (list, tuple)) else (ignore_value,))
        kg = klepto.keygen(*ig, keymap=km)(target)
        for a, k in calls:
            res.append(kg(*(prefix + a), **k))
    else:
        ig = () if ignore_value is None else ignore_value
        for a, k in calls:
            x = klepto._keygen(target, ig, *(prefix + a), **k)
            res.append(km(*x[0], **x[1]))
    return res, None


def run_case(case):
    if case.get('insts'):
        try:
            return _run_case(case)
        finally:
            if 'f' in S.Inst.__dict__:
                delattr(S.Inst, 'f')
    return _run_case(case)


def _run_case(case):
    out = []
    sig, kind = case['sig'], case['kind']
    log = []
    body = lambda named, va, vk: log.append(1) or len(log)
    p1 = p2 = ()
    if kind == 'method':
        target = S.make_plain(S.with_self(sig), body)
        prefix = (S.Holder(),)
        if case.get('insts'):
            prefix = ()
            S.Inst.f = target          # getattr(instance, 'f') is now a bound method of the generated function, as for any method defined in a class body
            p1, p2 = (S.Inst(*case['insts'][0]),), (S.Inst(*case['insts'][1]),)
    else:
        target = S.make_plain(sig, body)
        prefix = ()
        plain = target
        preset = {}
        if kind == 'partial':
            import functools
            preset = dict((n, V.build(v)) for n, v in case.get('pkw', []))
            target = functools.partial(target, **preset)
    spec = case['ignore']
    sel = selector(sig, 'function' if kind == 'partial' else kind, spec)
    classes = ['path:' + case['path'], 'kind:' + kind, 'style:' + spec['style'], 'keymap:%s%s' % (case['keymap']['cls'], '' if case['keymap']['flat'] else '-nonflat')]
    if kind == 'method' and 'self' in spec['items']:
        classes.append('self_ignored')
    b1, b2 = case['b1'], case['b2']
    if not valid_binding(sig, b2):
        classes.append('skipped_invalid_edit')
        return [], None, classes
    a1, k1 = S.spell_full(sig, b1, case['form1'])
    a2, k2 = S.spell_full(sig, b2, case['form2'])
    a1, a2 = p1 + a1, p2 + a2
    if p1:
        classes.append('attached_method')
        if p1[0] != p2[0]:
            classes.append('instances_differ')
        if bool(p1[0]) != bool(p2[0]):
            classes.append('instance_truthiness_differs')
    if kind == 'partial':
        # what the underlying function is really called with: the partial's presets, overridden by the caller's keywords
        x, y = S.bound(plain, a1, dict(preset, **k1)), S.bound(plain, a2, dict(preset, **k2))
    else:
        x, y = S.bound(target, prefix + a1, k1), S.bound(target, prefix + a2, k2)
    if x is None or y is None:
        return [Discrepancy('C11/harness/invalid-call', '%r %r / %r %r' % (a1, k1, a2, k2))], None, classes
    only, diff = differs_only_in_ignored(sel, x, y)
    tag = kmtag(case)
    try:
        keys, evs = keys_for(case, target, prefix, spec_value(spec), [(a1, k1), (a2, k2)], log)
    except Exception as e:
        return [Discrepancy('C11/%s/raised/%s' % (case['path'], H.exc_sig(e)), '%r ignore=%r calls %r %r / %r %r' % (e, spec_value(spec), a1, k1, a2, k2))], None, classes
    try:
        same_key = bool(keys[0] == keys[1])
    except Exception:
        same_key = False
    kinds = set()
    for it in spec['items']:
        kinds.add('index' if isinstance(it, int) else ('star' if it == '*' else 'dstar' if it == '**' else 'name'))
    if only:
        classes.append('pair:only_ignored_differs' if diff else 'pair:identical')
        if not same_key:
            out.append(Discrepancy('C11/%s/ignored-argument-changes-key/%s' % (case['path'], '+'.join(sorted(set(d.split(':')[0].rstrip('0123456789') for d in diff))) or 'none'),
                                   'ignore=%r: calls (*%r, **%r) and (*%r, **%r) differ only in ignored %r but keys %r / %r' % (
                                       spec_value(spec), a1, k1, a2, k2, diff, keys[0], keys[1])))
        elif evs is not None:
            usable = True
            try:
                hash(keys[0])
            except Exception:
                usable = False
            if usable and evs[1] != 0:
                out.append(Discrepancy('C11/call/ignored-difference-recomputed', 'ignore=%r: second call evaluated %d times' % (spec_value(spec), evs[1])))
    else:
        classes.append('pair:non_ignored_differs')
        # discrimination exactly as without ignore, on the pair with ignored positions equalised
        e = equalise(sel, sig, kind, b1, b2)
        if valid_binding(sig, e):
            ae, ke = S.spell_full(sig, e, case['form2'])
            ae = (p1 if 'self' in sel['named'] else p2) + ae
            z = S.bound(target, prefix + ae, ke)
            if z is not None:
                try:
                    base, _ = keys_for(dict(case, path='fkey' if case['path'] == 'call' else case['path']), target, prefix, None, [(a1, k1), (ae, ke)], [])
                    base_differ = not bool(base[0] == base[1])
                except Exception:
                    base_differ = False
                if base_differ:
                    classes.append('discrimination_checked')
                    if same_key:
                        out.append(Discrepancy('C11/%s/non-ignored-argument-dropped-from-key/%s' % (case['path'], '+'.join(sorted(set(d.split(':')[0].rstrip('0123456789') for d in diff if d[0].isupper())))),
                                               'ignore=%r: calls (*%r, **%r) and (*%r, **%r) differ in NON-ignored %r yet share key %r (without ignore the equalised pair gets %r / %r)' % (
                                                   spec_value(spec), a1, k1, a2, k2, [d for d in diff if d[0].isupper()], keys[0], base[0], base[1])))
                    elif evs is not None and evs[1] != 1:
                        out.append(Discrepancy('C11/call/non-ignored-difference-not-evaluated', 'second call evaluated %d times' % evs[1]))
    nt = None
    if len(kinds) >= 2:
        classes.append('mixed_selectors')
    if len(kinds) >= 2 and (S.has_kwonly(sig) or sig['varkw']):
        nt = (shape(sig), kind, repr(spec_value(spec)), tag, case['path'], sorted(diff))
    return out, nt, classes


REQUIRED_CLASSES = ['attached_method', 'instance_truthiness_differs', 'pair:only_ignored_differs', 'pair:non_ignored_differs', 'discrimination_checked', 'mixed_selectors', 'self_ignored',
                    'style:bare', 'style:list', 'kind:method']


TRIGGERS = {}
