"""C10 key discrimination: different calls never share a key; typed keys separate types."""
import copy, functools
from hypothesis import strategies as st
from harness import cachehist as H, values as V, sigs as S
from harness.core import Discrepancy
from props.c09 import KEYMAPS, build_target, kmtag, shape, rest_sig

PROP = 'C10'
LEVEL = 'exploration'
RULE = ("cases = generated signature x kind {function, method, partial} x binding B1 x B2 derived from B1 by ONE edit (change a named value, an "
        "extra positional, an extra keyword, a keyword-only value; add/drop an extra positional or keyword; spell the keyword part of a purely variadic call as trailing positionals f(a=1) vs f('a', 1); swap a value for its str()/repr() "
        "look-alike such as 1 vs '1', 'a' vs \"'a'\"; or for an equal-but-differently-typed twin 1/1.0/True) x information-preserving keymap (raw, "
        "string, pickle, md5/sha1 hash; non-flat, or flat with sentinel, or signature without *args) x typed x path {f.key, keygen, _keygen+keymap, real "
        "calls}. Oracle: inspect.signature().bind(...) arguments unequal => keys unequal and the second real call is evaluated and returns its own "
        "value; typed=True => top-level twins get different keys. non-trivial = the pair differs in exactly one position that is an extra positional, "
        "an extra keyword, a keyword-only parameter, or a str/repr look-alike; distinct = (signature shape, keymap, path, edit kind, values)")
ASSUMPTIONS = ['python-hash keymaps (hashmap(algorithm=None), the std default) are lossy by design and excluded by the statement',
               'flat keymaps without sentinel are only required to discriminate for signatures without *args (statement)']

N = {'quick': 2500, 'thorough': 20000}
FUZZ_SECONDS = 180      # thorough tier: coverage-guided campaign over the same strategy and oracle (tools/fuzz.py)
SHARDS = {'quick': 4, 'thorough': 16}
PATHS = ['fkey', 'keygen', '_keygen', 'call']

LOOKALIKES = [(['i', 1], ['s', '1']), (['s', 'a'], ['s', "'a'"]), (['n'], ['s', 'None']), (['f', '0.5'], ['s', '0.5']),
              (['t', [['i', 1]]], ['s', '(1,)']), (['b', '61'], ['s', "b'a'"]), (['B', True], ['s', 'True']),
              (['t', []], ['s', '()']), (['s', ''], ['s', ' ']), (['i', -1], ['i', -2]), (['s', 'a, b'], ['s', 'a,b']),
              (['G', 3], ['t', [['i', 0], ['i', 1], ['i', 2]]]), (['G', 0], ['t', []])]        # a range and the tuple of its items are different values
TWINS = [(['i', 1], ['f', '1.0']), (['i', 1], ['B', True]), (['i', 0], ['f', '0.0']), (['i', 0], ['B', False]), (['f', '1.0'], ['B', True]),
         (['i', 2], ['f', '2.0']), (['N', [['f', '1.0'], ['f', '2.0']]], ['t', [['f', '1.0'], ['f', '2.0']]])]      # a namedtuple equals the plain tuple of its fields


def info_preserving(km, has_varargs):
    if km['cls'] == 'hashmap' and not km['opt']:
        return False
    if not km['flat']:
        return True
    return bool(km['sentinel']) or not has_varargs


@st.composite
def edits(draw, rest, b, vals, sibling=None, prefer_twin_swap=False):
    """(B1', B2, kind): B1' is b possibly with a slot overwritten (for look-alike/twin pairs), B2 one edit away"""
    b1 = copy.deepcopy(b)
    b2 = copy.deepcopy(b)
    slots = [('named', i) for i in range(len(b.get('named', [])))] + [('xpos', i) for i in range(len(b.get('xpos', [])))] + \
            [('kwonly', i) for i in range(len(b.get('kwonly', [])))] + [('xkw', i) for i in range(len(b.get('xkw', [])))]
    structural = []
    if rest.get('varargs') and len(b.get('named', [])) == len(rest['req']) + len(rest['opt']):
        structural += ['add_xpos'] + (['drop_xpos'] if b.get('xpos') else [])
    if rest.get('varkw'):
        structural += ['add_xkw'] + (['drop_xkw'] if b.get('xkw') else [])
    named_slots = [x for x in slots if x[0] in ('named', 'kwonly', 'xkw')]
    if len(named_slots) >= 2:
        # equal-but-differently-typed values swapped between two parameters: what a typed key must still tell apart
        structural = structural + ['twin_swap'] * (8 if prefer_twin_swap else 1)
    if rest.get('varargs') and rest.get('varkw') and not (rest.get('req') or rest.get('opt') or rest.get('kwreq') or rest.get('kwopt')):
        # purely variadic: the keyword part of one call spelled out as trailing positionals of the other (what the sentinel exists to tell apart)
        structural = structural + ['kw_as_pos'] * 4
    omitted_opt = [n for n, _ in rest.get('opt', []) if n not in [k for k, _ in b.get('named', [])]]
    if sibling and omitted_opt and not b.get('xpos'):
        structural = structural + ['sibling_default', 'sibling_default']
    choice = draw(st.sampled_from(['value', 'value', 'lookalike', 'lookalike', 'twin'] + structural)) if slots else \
        draw(st.sampled_from(structural)) if structural else 'none'
    if choice in ('value', 'lookalike', 'twin'):
        kind, i = slots[draw(st.integers(0, len(slots) - 1))]
        def put(bb, v):
            if kind == 'xpos':
                bb[kind][i] = v
            else:
                bb[kind][i][1] = v
        if choice == 'value':
            put(b2, draw(vals))
        else:
            x, y = draw(st.sampled_from(LOOKALIKES if choice == 'lookalike' else TWINS))
            if draw(st.booleans()):
                x, y = y, x
            put(b1, x)
            put(b2, y)
        return b1, b2, '%s:%s' % (choice, kind)
    if choice == 'twin_swap':
        (k1, i1), (k2, i2) = draw(st.permutations(named_slots))[:2]
        x, y = draw(st.sampled_from(TWINS))
        b1[k1][i1][1], b1[k2][i2][1] = x, y
        b2[k1][i1][1], b2[k2][i2][1] = y, x
        return b1, b2, 'twin_swap'
    if choice == 'kw_as_pos':
        if not b1.get('xkw'):
            b1['xkw'] = [[draw(st.sampled_from(S.XKW)), draw(vals)]]
        if draw(st.booleans()):
            b1['xpos'] = []          # the purely-keyword call against the purely-positional one
        b2 = copy.deepcopy(b1)
        flat = []
        for n, v in sorted(b1['xkw'], key=lambda nv: nv[0]):
            flat += [['s', n], v]
        b2['xpos'] = list(b1.get('xpos', [])) + flat
        b2['xkw'] = []
        return b1, b2, 'kw_as_pos'
    if choice == 'sibling_default':
        n = omitted_opt[draw(st.integers(0, len(omitted_opt) - 1))]
        b2['named'].append([n, dict(sibling)[n]])
        return b1, b2, 'sibling_default'
    if choice == 'add_xpos':
        b2.setdefault('xpos', []).append(draw(vals))
    elif choice == 'drop_xpos':
        b2['xpos'].pop()
    elif choice == 'add_xkw':
        free = [n for n in S.XKW if n not in [k for k, _ in b.get('xkw', [])]]
        if free:
            b2.setdefault('xkw', []).append([free[0], draw(vals)])
    elif choice == 'drop_xkw':
        b2['xkw'].pop()
    return b1, b2, choice


def family_of(km):
    if km.get('then'):
        return 'chained'
    if km['cls'] == 'keymap':
        return 'raw-typed' if km['typed'] else 'raw'
    return {'stringmap': 'string', 'picklemap': 'pickle', 'hashmap': 'hash'}[km['cls']]


FAMILIES = ['raw', 'raw-typed', 'string', 'pickle', 'hash', 'chained']


@st.composite
def cases(draw, path, focus=None, family=None):
    sig = draw(S.signatures())
    if focus == 'varargs':
        # flat keys of purely variadic functions: the shape where 'fast type' unwrapping and missing separators bite
        sig = {'req': [], 'opt': [], 'varargs': True, 'kwreq': [], 'kwopt': [], 'varkw': draw(st.booleans())}
    kind = draw(st.sampled_from(['function', 'function', 'function', 'method', 'partial']))
    vals = V.hashables(max_depth=1, special_floats=False)
    nfix = draw(st.integers(0, len(sig['req']))) if kind == 'partial' else 0
    pkw = []
    if kind == 'partial':
        # the partial may preset keyword-only parameters that also have a default in the wrapped function
        for n, d in sig['kwopt']:
            if draw(st.booleans()):
                v = draw(vals)
                if V.build(v) != V.build(d):
                    pkw.append([n, v])
    rest = rest_sig(sig, nfix, pkw)
    b = draw(S.bindings(rest, vals, force_xpos=(focus == 'varargs' and draw(st.integers(0, 3)) > 0)))
    tol = draw(st.sampled_from([None, None, None, 0, 1])) if path != '_keygen' else None
    deep = draw(st.booleans()) if tol is not None else False
    sibling = None
    if kind == 'function' and sig['opt'] and draw(st.integers(0, 2)) == 0:
        # a sibling function object sharing the code object but with other defaults (closure factory / lambda-in-a-loop shape)
        sibling = [[n, draw(vals)] for n, _ in sig['opt']]
    b1, b2, ek = draw(edits(rest, b, vals, sibling, prefer_twin_swap=(family == 'raw-typed')))
    preset_omitted = [n for n, _ in pkw if n not in [k for k, _ in b.get('kwonly', [])]]
    if preset_omitted and draw(st.booleans()):
        # 'leave the partial's preset alone' vs 'pass the wrapped function's ORIGINAL default explicitly': different calls
        n = preset_omitted[draw(st.integers(0, len(preset_omitted) - 1))]
        b1, b2, ek = copy.deepcopy(b), copy.deepcopy(b), 'spell_original_default'
        b2.setdefault('kwonly', []).append([n, dict((k, d) for k, d in sig['kwopt'])[n]])
    if focus == 'single':
        # exactly one positional of a purely variadic function: the corner where keymap.encode unwraps a lone 'fast type' argument,
        # so the encoder sees the bare object instead of a tuple (1 vs '1', None vs 'None', b'a' vs "b'a'")
        sig = {'req': [], 'opt': [], 'varargs': True, 'kwreq': [], 'kwopt': [], 'varkw': draw(st.booleans())}
        kind, nfix, pkw, sibling, tol, deep = 'function', 0, [], None, None, False
        x, y = draw(st.sampled_from(LOOKALIKES + TWINS))
        if draw(st.booleans()):
            x, y = y, x
        b1, b2, ek = {'named': [], 'xpos': [x], 'kwonly': [], 'xkw': []}, {'named': [], 'xpos': [y], 'kwonly': [], 'xkw': []}, 'lookalike:xpos'
    # an ignore specification in effect (names, '*', '**'; a single name possibly as a bare string): calls that still differ in a NON-ignored
    # parameter must keep different keys
    ignore = None
    if focus != 'single' and draw(st.integers(0, 3)) == 0:
        names = list(rest['req']) + [n for n, _ in rest['opt']] + list(rest['kwreq']) + [n for n, _ in rest['kwopt']] + ['*', '**'] + S.XKW[:2] + (['self'] if kind == 'method' else [])
        # multi-letter names ('func', 'ignored', 'key', 'self') whose LETTERS are parameter names of their own: a bare string must be taken as one name
        multi = [n for n in S.XKW if len(n) > 1] + (['self'] if kind == 'method' else [])
        if (rest.get('kwreq') or rest.get('kwopt')) and draw(st.integers(0, 2)) == 0:
            # '**' ignores the EXTRA keywords only: keyword-only parameters (required or defaulted) still discriminate
            items = ['**'] + (['*'] if draw(st.booleans()) else [])
        elif draw(st.integers(0, 2)) == 0:
            items = [draw(st.sampled_from(multi))]
        else:
            items = draw(st.lists(st.sampled_from(names), min_size=1, max_size=2, unique=True))
        ignore = {'items': items, 'bare': len(items) == 1 and draw(st.integers(0, 3)) > 0}
    kms = [k for k in KEYMAPS if info_preserving(k, bool(sig['varargs']))]
    if focus in ('varargs', 'single'):
        kms = [k for k in kms if k['flat']]
    if family is not None:
        kms = [k for k in kms if family_of(k) == family] or kms
    km = draw(st.sampled_from(kms))
    module = 'safe' if (km['cls'] == 'keymap' and not km['flat']) else draw(st.sampled_from(['std', 'safe']))
    return {'sig': sig, 'kind': kind, 'nfix': nfix, 'fixed': [draw(vals) for _ in range(nfix)], 'pkw': pkw, 'tol': tol, 'deep': deep, 'b1': b1, 'b2': b2, 'edit': ek, 'sibling': sibling,
            'form1': draw(st.integers(0, 255)), 'form2': draw(st.integers(0, 255)), 'keymap': km, 'path': path, 'module': module,
            'algo': draw(st.sampled_from(['inf', 'lru', 'lfu', 'mru', 'rr'] + H.DISPATCHED)), 'ignore': ignore}


def strip_ignored(b, ig):
    """the bound arguments that are NOT selected by the ignore specification (reference selector, independent of klepto)"""
    out = {}
    for n, v in b.items():
        if n == '_a':
            if '*' in ig:
                continue
        elif n == '_k':
            if '**' in ig:
                continue
            v = dict((k, vv) for k, vv in v.items() if k not in ig)
        elif n in ig:
            continue
        out[n] = v
    return out


def strata(tier):
    # one stratum per (path, keymap family): typed raw keys, string, pickle, hash and chained keymaps each get their own budget
    out = [('path:%s/%s' % (p, fam), cases(p, None, fam)) for p in PATHS for fam in FAMILIES]
    return out + [('varargs/path:' + p, cases(p, 'varargs')) for p in PATHS] + [('single-vararg/path:' + p, cases(p, 'single')) for p in PATHS]


def top_level_type_diff(x, y):
    for n in x:
        if n in ('_a', '_k'):
            continue
        if type(x[n]) is not type(y[n]):
            return True
    xa, ya = x.get('_a', ()), y.get('_a', ())
    if len(xa) == len(ya) and any(type(p) is not type(q) for p, q in zip(xa, ya)):
        return True
    xk, yk = x.get('_k', {}), y.get('_k', {})
    if xk.keys() == yk.keys() and any(type(xk[n]) is not type(yk[n]) for n in xk):
        return True
    return False


def run_case(case):
    import klepto
    out = []
    log = []
    sig = case['sig']

    def body(named, va, vk):
        log.append(1)
        return ('r', tuple((n, repr(v), type(v).__name__) for n, v in named), tuple((repr(v), type(v).__name__) for v in va),
                tuple(sorted((k, repr(v), type(v).__name__) for k, v in vk.items())))
    case_t = dict(case)
    target, prefix, oracle_fn = build_target(case_t, log)
    # build_target uses its own body; rebuild with ours for the call path
    if case['kind'] == 'method':
        target = S.make_plain(S.with_self(sig), body)
        oracle_fn = target
    elif case['kind'] == 'partial':
        base = S.make_plain(sig, body)
        target = functools.partial(base, *[V.build(s) for s in case['fixed']], **dict((n, V.build(v)) for n, v in case.get('pkw', [])))
        oracle_fn = target
    else:
        target = S.make_plain(sig, body)
        oracle_fn = target
    rest = rest_sig(sig, case['nfix'], case.get('pkw', []))
    a1, k1 = S.spell_full(rest, case['b1'], case['form1'])
    a2, k2 = S.spell_full(rest, case['b2'], case['form2'])
    a1, a2 = prefix + a1, prefix + a2
    x, y = S.bound(oracle_fn, a1, k1), S.bound(oracle_fn, a2, k2)
    km_spec = case['keymap']
    classes = ['path:' + case['path'], 'kind:' + case['kind'], 'edit:' + case['edit'].split(':')[0], 'typed:%s' % km_spec['typed'],
               'keymap:%s%s' % (km_spec['cls'], '' if km_spec['flat'] else '-nonflat')]
    if x is None or y is None:
        return [Discrepancy('C10/harness/invalid-call', '%r %r / %r %r' % (a1, k1, a2, k2))], None, classes
    tol, deep = case.get('tol'), bool(case.get('deep'))
    tkw = {}
    if tol is not None:
        # under a rounding tolerance two calls are 'different' only if they still differ after (reference) rounding of what the caller passed
        from props.c12 import R_call, exact
        tkw = {'tol': tol, 'deep': deep}
        classes.append('tol:%r' % tol)
        ra1, rk1 = R_call(a1, k1, tol, 'deep' if deep else 'simple')
        ra2, rk2 = R_call(a2, k2, tol, 'deep' if deep else 'simple')
        x, y = S.bound(oracle_fn, ra1, rk1), S.bound(oracle_fn, ra2, rk2)
        if x is None or y is None:
            return [Discrepancy('C10/harness/invalid-call-after-rounding', '%r %r' % (ra1, rk1))], None, classes
    ign = case.get('ignore')
    if ign:
        x, y = strip_ignored(x, ign['items']), strip_ignored(y, ign['items'])
        ig_value = ign['items'][0] if ign['bare'] else tuple(ign['items'])
        ig_items = tuple(ign['items'])
        tkw = dict(tkw, ignore=ig_value)
        classes.append('ignore_in_effect')
        if ign['bare']:
            classes.append('ignore_bare_string')
    else:
        ig_value, ig_items = (), ()
    gkw = dict((k, v) for k, v in tkw.items() if k != 'ignore')
    unequal = not S.bound_equal(x, y)
    twin = (not unequal) and top_level_type_diff(x, y)
    if not unequal and not twin:
        classes.append('pair_equal_skipped')
        return [], None, classes
    if twin and not km_spec['typed']:
        classes.append('twin_untyped_no_assertion')
        return [], None, classes
    classes.append('twin_typed' if twin else 'unequal_pair')
    km = H.make_keymap(km_spec)
    path = case['path']
    tag = kmtag(case)
    if case.get('sibling') and case['kind'] == 'function':
        import types
        sib = types.FunctionType(target.__code__, target.__globals__, target.__name__,
                                 tuple(V.build(v) for _, v in case['sibling']), target.__closure__)
        sib.__kwdefaults__ = target.__kwdefaults__
        classes.append('sibling_keyed_first')
        try:
            sa, sk = S.spell_full(rest, case['b1'], 0)
            if path in ('fkey', 'call'):
                H.decorator_class(case['module'], case['algo'])(keymap=km, **tkw)(sib).key(*sa, **sk)
            elif path == 'keygen':
                klepto.keygen(*ig_items, keymap=km, **gkw)(sib)(*sa, **sk)
            else:
                klepto._keygen(sib, ig_value, *sa, **sk)
        except Exception as e:
            out.append(Discrepancy('C10/%s/sibling-raised/%s' % (path, H.exc_sig(e)), repr(e)))
            return out, None, classes
    try:
        if path in ('fkey', 'call'):
            f = H.decorator_class(case['module'], case['algo'])(keymap=km, **tkw)(target)
            key1, key2 = f.key(*a1, **k1), f.key(*a2, **k2)
            if path == 'call':
                r1 = f(*a1, **k1)
                n1 = len(log)
                r2 = f(*a2, **k2)
                n2 = len(log)
                exp2 = oracle_fn(*a2, **k2)
                if n2 - n1 != 1 or r2 != exp2:
                    out.append(Discrepancy('C10/call/answered-with-another-calls-result/%s%s' % (tag, '/twin' if twin else ''),
                                           'f(*%r, **%r) then f(*%r, **%r): second call evaluated %d times and returned %r (own value %r); keys %r / %r' % (
                                               a1, k1, a2, k2, n2 - n1, r2, exp2, key1, key2)))
        elif path == 'keygen':
            kg = klepto.keygen(*ig_items, keymap=km, **gkw)(target)
            key1, key2 = kg(*a1, **k1), kg(*a2, **k2)
        else:
            x1 = klepto._keygen(target, ig_value, *a1, **k1)
            x2 = klepto._keygen(target, ig_value, *a2, **k2)
            key1, key2 = km(*x1[0], **x1[1]), km(*x2[0], **x2[1])
    except Exception as e:
        out.append(Discrepancy('C10/%s/raised/%s' % (path, H.exc_sig(e)), '%r for %r %r / %r %r' % (e, a1, k1, a2, k2)))
        return out, None, classes
    if path != 'call':
        try:
            collide = bool(key1 == key2)
        except Exception:
            collide = False
        if collide:
            out.append(Discrepancy('C10/%s/keys-collide/%s%s' % (path, tag, '/twin' if twin else ''),
                                   'calls (*%r, **%r) and (*%r, **%r) bind %r vs %r but share key %r' % (a1, k1, a2, k2, x, y, key1)))
    ek = case['edit']
    nt = None
    if ek.startswith(('lookalike', 'twin')) or ek in ('add_xpos', 'drop_xpos', 'add_xkw', 'drop_xkw', 'kw_as_pos') or ek.endswith((':xpos', ':xkw', ':kwonly')):
        nt = (shape(sig), tag, path, ek, repr(a1), repr(sorted(k1.items(), key=repr)), repr(a2), repr(sorted(k2.items(), key=repr)))
        classes.append('nt:' + ek.split(':')[-1])
    return out, nt, classes


REQUIRED_CLASSES = ['ignore_in_effect', 'ignore_bare_string', 'edit:kw_as_pos', 'tol:0', 'tol:1', 'edit:spell_original_default', 'unequal_pair', 'twin_typed', 'edit:twin_swap', 'edit:sibling_default', 'sibling_keyed_first', 'edit:lookalike', 'edit:add_xpos', 'edit:add_xkw', 'nt:xpos', 'nt:xkw', 'nt:kwonly', 'kind:method', 'kind:partial']


def trig_flat_str_unwrap(case, discr):
    """D3: flat string keymap unwraps a lone fast-type positional and str()s it: f(1) == f('1') for def f(*a).
    Trigger = flat untyped stringmap with str() encoding, nothing named left in the signature, both calls pass exactly one
    positional and no keyword, and the two values print the same."""
    km = case['keymap']
    if not (km['cls'] == 'stringmap' and km['flat'] and not km['typed'] and km['opt'] in (None, 'str')):
        return False
    sig = case['sig']
    if not sig['varargs'] or sig['req'][case['nfix']:] or sig['opt']:
        return False
    for b in (case['b1'], case['b2']):
        if len(b.get('xpos', [])) != 1 or b.get('xkw') or b.get('kwonly') or b.get('named'):
            return False
    v1, v2 = V.build(case['b1']['xpos'][0]), V.build(case['b2']['xpos'][0])
    return str(v1) == str(v2)


TRIGGERS = {'flat_stringmap_single_vararg': trig_flat_str_unwrap}
