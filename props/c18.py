"""C18 introspection coherence: key(), lookup() and __cache__() agree with calls."""
from harness import cachehist as H, cachegen as G
from harness.core import Discrepancy
from props._cc import has, base_classes, same, outcome

PROP = 'C18'
LEVEL = 'exploration'
RULE = ("stratified cases over all 12 decorators x purge x backend family x keymaps x ignore specs (names, indices, bare str/int, '*', '**') x "
        "tol{None,0,1,-1} x deep; histories of calls interleaved with key(form), lookup(form), __cache__(), __wrapped__. Oracle: (1) a miss that adds "
        "exactly one entry adds it under key(args) and it maps to the result (key() is the storage key, in memory and archive); (2) lookup(args) returns "
        "the resident value, or raises KeyError iff key(args) is not resident; (3) key/lookup never evaluate the function nor change residents, archive or "
        "info; (4) a TWIN run of the same history without the introspection ops is indistinguishable at every step (results, residents, info, "
        "evaluations) - this is how 'eviction order unchanged' is observed; __wrapped__ is the function. non-trivial = a lookup of a resident entry "
        "[plus: the wrapped callable is a builtin without an introspectable signature (min / max over comparison-logging arguments): key()/lookup() never make it compare; callables without any argument: key() in the empty form; key(args) asked again at the end of the history gives the same key] followed later by an overflow, or key() under ignore/tol; distinct = (class, backend, ignore, tol, op/outcome sequence)")
ASSUMPTIONS = ['with tol/ignore set, results are compared with the twin run, not with the undecorated function (merging calls is the point of tol/ignore)']

N = {'quick': 550, 'thorough': 3500}
SHARDS = {'quick': 4, 'thorough': 16}

IGNORES = (None, None, ['y'], [0], 'y', 1, ['*'], ['**'], ['*', '**'], [0, '**'], ['x'], ['k'])


def _add_introspection(case):
    # after every call of the hostile-argument histories: lookup() and key() with the same arguments
    ops = []
    for op in case['ops']:
        ops.append(op)
        if op[0] == 'call':
            ops.append(['lookup', op[1], op[2] if len(op) > 2 else 0])
            ops.append(['key', op[1], op[2] if len(op) > 2 else 0])
    return dict(case, ops=ops, part='unkeyable')


class Lt(object):
    """argument for the builtins min / max: every comparison (= evaluation of the builtin) is logged"""
    log = []

    def __init__(self, v):
        self.v = v

    def __lt__(self, other):
        Lt.log.append((self.v, other.v))
        return self.v < other.v

    def __gt__(self, other):
        Lt.log.append((self.v, other.v))
        return self.v > other.v

    def __repr__(self):
        return 'Lt(%d)' % self.v

    def __eq__(self, other):
        return isinstance(other, Lt) and self.v == other.v

    def __hash__(self):
        return hash(('Lt', self.v))


def builtin_cases(algo):
    """the wrapped callable is a BUILTIN without an introspectable signature (min, max): klepto caches those too"""
    from hypothesis import strategies as st
    op = st.tuples(st.sampled_from(['call', 'call', 'key', 'lookup', 'lookup']), st.integers(0, 3), st.integers(0, 3)).map(list)
    return st.fixed_dictionaries({
        'part': st.just('builtin'), 'module': st.sampled_from(['std', 'safe']), 'algo': st.just(algo), 'maxsize': st.sampled_from([1, 2, 3]),
        'fn': st.sampled_from(['min', 'max']), 'keymap': st.sampled_from([None, {'cls': 'stringmap', 'opt': 'repr', 'flat': True, 'typed': False, 'sentinel': False},
                                                                              {'cls': 'keymap', 'opt': None, 'flat': True, 'typed': False, 'sentinel': False},
                                                                              {'cls': 'hashmap', 'opt': 'md5', 'flat': True, 'typed': True, 'sentinel': False}]),
        'ops': st.lists(op, min_size=2, max_size=14)})


def run_builtin(case):
    import builtins
    out = []
    algo = case['algo']
    classes = ['part:builtin', 'module:' + case['module'], 'eff_algo:' + algo, 'builtin:' + case['fn']]
    kw = {}
    km = H.make_keymap(case['keymap'])
    if km is not None:
        kw['keymap'] = km
    if algo not in ('no', 'inf'):
        kw['maxsize'] = case['maxsize']
    fn = getattr(builtins, case['fn'])
    f = H.decorator_class(case['module'], algo)(**kw)(fn)
    seen = set()
    flags = set()
    for i, (kind, x, y) in enumerate(case['ops']):
        a, b = Lt(x), Lt(y + 10)          # distinct values: min/max compare exactly once per evaluation
        del Lt.log[:]
        before = (dict(f.__cache__()), tuple(f.info()))
        try:
            if kind == 'call':
                r = f(a, b)
                if r != fn(Lt(x), Lt(y + 10)):
                    out.append(Discrepancy('C18/builtin/%s/wrong-result' % algo, '%s(%r, %r) returned %r' % (case['fn'], a, b, r)))
                seen.add((x, y))
                continue
            r = f.key(a, b) if kind == 'key' else f.lookup(a, b)
            exc = None
        except KeyError as e:
            r, exc = None, e
        except Exception as e:
            out.append(Discrepancy('C18/builtin/%s/%s-raised/%s' % (algo, kind, H.exc_sig(e)), 'step %d: %s(%r, %r): %r' % (i, kind, a, b, e)))
            break
        after = (dict(f.__cache__()), tuple(f.info()))
        if Lt.log:
            out.append(Discrepancy('C18/builtin/%s/%s-evaluated-function' % (algo, kind), 'step %d: %s(%r, %r) on cached builtin %s made it compare %r' % (i, kind, a, b, case['fn'], Lt.log[:3])))
        elif before != after:
            out.append(Discrepancy('C18/builtin/%s/%s-changed-state' % (algo, kind), 'step %d: %r -> %r' % (i, before, after)))
        elif kind == 'key' and exc is not None:
            out.append(Discrepancy('C18/builtin/%s/key-raised-KeyError' % algo, 'step %d' % i))
        elif kind == 'lookup':
            k = f.key(a, b)
            resident = k in before[0]
            if resident and (exc is not None or r != before[0][k]):
                out.append(Discrepancy('C18/builtin/%s/lookup-resident-wrong' % algo, 'step %d: resident %r, lookup gave %r / %r' % (i, before[0][k], r, exc)))
            elif not resident and exc is None:
                out.append(Discrepancy('C18/builtin/%s/lookup-nonresident-no-KeyError' % algo, 'step %d: lookup gave %r' % (i, r)))
            flags.add('builtin_lookup_resident' if resident else 'builtin_lookup_missing')
        if out:
            break
    classes += sorted(flags)
    nt = ('builtin', case['module'], algo, case['fn'], case['keymap'] and case['keymap']['cls'], tuple(map(tuple, case['ops']))) if 'builtin_lookup_resident' in flags else None
    return out[:1], nt, classes


def strata(tier):
    from props import c16
    # safe decorators with arguments no key can be built for (or whose key is unhashable): key()/lookup() must still never run the function
    unk = [('unkeyable/' + n, s.map(_add_introspection)) for n, s in c16.hostile_strata(tier)[1::3]]
    from hypothesis import strategies as st
    bi = [('builtin/' + a, builtin_cases(a)) for a in H.ALGOS]
    return unk + bi + [(n, st.tuples(s_, st.integers(0, 2)).map(_with_lookup_scenario)) for n, s_ in _strata(tier)]


def _with_lookup_scenario(pair):
    case, pick = pair
    ms = case.get('maxsize')
    if pick == 0 and isinstance(ms, int) and ms >= 1 and len(case['pool']) > ms:
        # fill the cache, look one resident entry up repeatedly (must not count as a use), then overflow: if lookup() touched the
        # recency / frequency bookkeeping the victim changes and the run diverges from its twin without the lookups
        n = len(case['pool'])
        pre = [['call', j, 0, 0] for j in range(ms)] + [['lookup', 0, 0]] * 3 + [['key', 0, 0]] + [['call', j, 0, 1] for j in range(ms, n)] + [['call', j, 0, 2] for j in range(ms)]
        case = dict(case, ops=pre + list(case['ops']))
    return case


def check_unkeyable(case, tr):
    out = []
    flags = {'unkeyable_lookup': 0}
    if tr.setup_exc is not None:
        return out, flags
    algo = H.effective_algo(case)
    for i, s in enumerate(tr.steps):
        if s.kind not in ('lookup', 'key'):
            continue
        if s.evals:
            out.append(Discrepancy('C18/safe/%s/%s-evaluated-the-function' % (algo, s.kind), 'step %d: %s(*%r, **%r) ran the wrapped function %d time(s)' % (i, s.kind, s.args, s.kwds, s.evals)))
            return out, flags
        if s.pre_info is not None and s.post_info is not None and tuple(s.pre_info) != tuple(s.post_info):
            out.append(Discrepancy('C18/safe/%s/%s-changed-info' % (algo, s.kind), 'step %d: %r -> %r' % (i, s.pre_info, s.post_info)))
            return out, flags
        if s.kind == 'lookup':
            if s.exc is not None and not isinstance(s.exc, KeyError):
                flags['unkeyable_lookup'] += 1          # no key can be built / hashed: any error is fine, a value is not
            if s.exc is None:
                mem = s.pre_mem or {}
                hit = [k for k in mem if same(mem[k], s.result)]
                if not hit:
                    out.append(Discrepancy('C18/safe/%s/lookup-returned-a-value-that-is-not-resident' % algo, 'step %d: lookup(*%r, **%r) -> %r; resident %r' % (
                        i, s.args, s.kwds, s.result, sorted(map(repr, mem)))))
                    return out, flags
    return out, flags


def _strata(tier):
    return G.strata_grid(
        maxsizes=(2, 1, 3, None, 0),
        weights={'call': 12, 'burst': 1, 'lookup': 6, 'key': 4, 'load': 1, 'dump': 1, 'clear': 1, 'clearkeep': 0, 'arch_off': 0, 'arch_on': 0,
                 'dumpk': 0, 'loadk': 0, 'awrite': 0, 'cache_get': 1, 'wrapped': 1},
        max_ops=30 if tier == 'quick' else 60, pool=(3, 7), tols=(None, None, 0, 1, -1), deeps=(False, True), ignores=IGNORES, float_pct=6,
        shapes=[{'req': ['x']}, {'req': ['x'], 'opt': [['y', ['i', 1]]]}, {'req': ['x', 'y']},
                {'req': ['x'], 'opt': [['y', ['i', 1]]], 'varkw': True}, {'req': ['x'], 'varargs': True, 'varkw': True},
                # float defaults finer than the tolerance: key()/lookup() must treat a defaulted argument exactly as the call does
                {'req': ['x'], 'opt': [['y', ['f', '0.125']]]}, {'req': ['x'], 'opt': [['y', ['f', '2.675']]], 'kwopt': [['s', ['f', '0.5']]]},
                {'req': ['x'], 'opt': [['y', ['t', [['f', '0.25'], ['f', '0.75']]]]]},
                # callable with NO argument at all: key() / lookup() in the empty form
                {'opt': [['x', ['i', 1]], ['y', ['i', 2]]]}, {'varargs': True, 'varkw': True}])


INTRO = ('lookup', 'key', 'cache_get', 'wrapped')


def _same_state(a, b):
    if a is None or b is None:
        return a is b
    if len(a) != len(b):
        return False
    for k, v in a.items():
        if not has(b, k) or not same(b[k], v):
            return False
    return True


def check(case, tr):
    out = []
    flags = {'lookup_resident': 0, 'lookup_missing': 0, 'lookup_then_overflow': 0, 'key_under_ignore_tol': 0, 'storage_key_checked': 0, 'ev': []}
    if tr.setup_exc is not None:
        out.append(Discrepancy('C18/decorate/%s' % H.exc_sig(tr.setup_exc), repr(tr.setup_exc)))
        return out, flags, None
    algo = H.effective_algo(case)
    keep = []
    looked = False
    for i, s in enumerate(tr.steps):
        if s.kind in INTRO:
            if s.evals:
                out.append(Discrepancy('C18/%s/%s-evaluated-function' % (algo, s.kind), 'step %d' % i))
                return out, flags, None
            if not _same_state(s.pre_mem, s.post_mem) or not _same_state(s.pre_arch, s.post_arch) or s.pre_info != s.post_info:
                out.append(Discrepancy('C18/%s/%s-changed-state' % (algo, s.kind), 'step %d: residents %r -> %r, info %r -> %r' % (
                    i, sorted(map(repr, s.pre_mem)), sorted(map(repr, s.post_mem)), s.pre_info, s.post_info)))
                return out, flags, None
            if s.kind == 'lookup':
                try:
                    k = tr.f.key(*s.args, **s.kwds)
                except Exception as e:
                    k = None
                resident = k is not None and has(s.pre_mem, k)
                if s.extra is not None and bool(s.extra) != resident:
                    flags['residency_disagreement'] = flags.get('residency_disagreement', 0) + 1
                    resident = bool(s.extra)   # direct archives decide membership by file name / SQL match, not dict equality
                if resident:
                    flags['lookup_resident'] += 1
                    looked = True
                    if s.exc is not None or not same(s.result, s.pre_mem[k]):
                        out.append(Discrepancy('C18/%s/lookup-resident-wrong' % algo, 'step %d: resident value %r, lookup gave %r / %r' % (i, s.pre_mem[k], s.result, s.exc)))
                        return out, flags, None
                else:
                    flags['lookup_missing'] += 1
                    if not isinstance(s.exc, KeyError):
                        out.append(Discrepancy('C18/%s/lookup-nonresident-no-KeyError' % algo, 'step %d: key %r not resident, lookup gave %r / %r' % (i, k, s.result, s.exc)))
                        return out, flags, None
            elif s.kind == 'key':
                if s.exc is not None:
                    out.append(Discrepancy('C18/%s/key-raised/%s' % (algo, H.exc_sig(s.exc)), 'step %d: %r' % (i, s.exc)))
                    return out, flags, None
                if case.get('ignore') is not None or case.get('tol') is not None:
                    flags['key_under_ignore_tol'] += 1
                # key(args) is a function of the arguments alone: asked again at the END of the history it must give the same answer
                try:
                    again = tr.f.key(*s.args, **s.kwds)
                    stable = bool(again == s.result) and type(again) is type(s.result)
                except Exception:
                    stable = True
                if not stable:
                    out.append(Discrepancy('C18/%s/key-depends-on-history' % algo, 'step %d: key(*%r, **%r) gave %r then, %r at the end of the history' % (i, s.args, s.kwds, s.result, again)))
                    return out, flags, None
                if not s.args and not s.kwds:
                    flags['key_of_empty_call'] = flags.get('key_of_empty_call', 0) + 1
            elif s.result is not True:
                out.append(Discrepancy('C18/%s/%s-identity' % (algo, s.kind), 'step %d' % i))
                return out, flags, None
            flags['ev'].append(s.kind[0].upper())
            continue
        keep.append(i)
        if s.kind != 'call':
            if s.exc is not None and not (s.kind in ('arch_on', 'arch_off') and isinstance(s.exc, ValueError)):
                out.append(Discrepancy('C18/%s/raised/%s' % (s.kind, H.exc_sig(s.exc)), 'step %d: %r' % (i, s.exc)))
                return out, flags, None
            continue
        if s.exc is not None:
            out.append(Discrepancy('C18/call/raised/%s' % H.exc_sig(s.exc), 'step %d: %r' % (i, s.exc)))
            return out, flags, None
        # (1) key() is the storage key
        new = [k for k in s.post_mem if not has(s.pre_mem, k)]
        if s.evals == 1 and len(new) == 1:
            flags['storage_key_checked'] += 1
            if not (new[0] == s.key and type(new[0]) is type(s.key)):
                out.append(Discrepancy('C18/%s/key-differs-from-storage-key' % algo, 'step %d: call stored under %r, key() says %r' % (i, new[0], s.key)))
                return out, flags, None
            if not same(s.post_mem[new[0]], s.result):
                out.append(Discrepancy('C18/%s/stored-value-differs' % algo, 'step %d' % i))
                return out, flags, None
        if s.evals == 1 and s.post_arch is not None and s.pre_arch is not None:
            newa = [k for k in s.post_arch if not has(s.pre_arch, k) and not has(s.pre_mem, k)]
            if len(newa) == 1 and not new and not (newa[0] == s.key):
                out.append(Discrepancy('C18/%s/key-differs-from-archive-key' % algo, 'step %d: archived under %r, key() says %r' % (i, newa[0], s.key)))
                return out, flags, None
        overflow = not has(s.pre_mem, s.key) and len(s.post_mem) <= len(s.pre_mem)
        if looked and overflow:
            flags['lookup_then_overflow'] += 1
        flags['ev'].append(outcome(s, algo)[0] + ('o' if overflow else ''))
    return out, flags, keep


def check_twin(case, tr, keep):
    out = []
    ops = H.expand_ops(case['ops'])
    tw = H.run_history(case, ops=[ops[i] for i in keep])
    if tw.setup_exc is not None or len(tw.steps) != len(keep):
        out.append(Discrepancy('C18/twin-harness', 'twin run did not complete'))
        return out
    algo = H.effective_algo(case)
    for j, i in enumerate(keep):
        s, t = tr.steps[i], tw.steps[j]
        what = None
        if (s.exc is None) != (t.exc is None):
            what = 'exception'
        elif s.kind == 'call' and not same(s.result, t.result):
            what = 'result'
        elif not _same_state(s.post_mem, t.post_mem):
            what = 'residents'
        elif not _same_state(s.post_arch, t.post_arch):
            what = 'archive'
        elif s.post_info != t.post_info:
            what = 'info'
        elif s.evals != t.evals:
            what = 'evaluations'
        if what:
            out.append(Discrepancy('C18/%s/introspection-changed-behaviour/%s' % (algo, what),
                                   'step %d %r: with introspection calls: residents %r info %r; twin without them: residents %r info %r' % (
                                       i, s.op, sorted(map(repr, s.post_mem or {})), s.post_info, sorted(map(repr, t.post_mem or {})), t.post_info)))
            return out
    return out


def run_case(case):
    if case.get('part') == 'builtin':
        return run_builtin(case)
    if case.get('part') == 'unkeyable':
        tr = H.run_history(case)
        discrs, flags = check_unkeyable(case, tr)
        classes = base_classes(case) + [k for k in flags if flags[k]]
        km = case.get('keymap')
        nt = ('unkeyable', case['algo'], case['backend'], km and (km['cls'], km['flat']), len(case['ops'])) if flags['unkeyable_lookup'] else None
        return discrs, nt, sorted(set(classes))
    tr = H.run_history(case)
    discrs, flags, keep = check(case, tr)
    if not discrs and keep is not None and len(keep) != len(tr.steps):
        discrs = check_twin(case, tr, keep)
    classes = base_classes(case) + [k for k in flags if k != 'ev' and flags[k]]
    classes.append('tol:%r' % (case.get('tol'),))
    classes.append('ignore:%s' % ('none' if case.get('ignore') is None else 'set'))
    nt = None
    if flags['lookup_then_overflow'] or flags['key_under_ignore_tol']:
        nt = (case['module'], case['algo'], case['backend'], repr(case.get('ignore')), case.get('tol'), case.get('deep'), flags['ev'])
    return discrs, nt, sorted(set(classes))


REQUIRED_CLASSES = ['builtin_lookup_resident', 'builtin_lookup_missing', 'key_of_empty_call', 'unkeyable_lookup', 'lookup_resident', 'lookup_missing', 'lookup_then_overflow', 'key_under_ignore_tol', 'storage_key_checked',
                    'tol:0', 'tol:1', 'tol:-1', 'ignore:set']
TRIGGERS = {}
