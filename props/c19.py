"""C19 validate/isvalid agree with Python's own argument binding."""
import functools, inspect, types
from hypothesis import strategies as st
from harness import sigs as S
from harness.cachehist import sig_source, exc_sig
from harness.core import Discrepancy

PROP = 'C19'
LEVEL = 'exploration'
RULE = ("cases = signature (0-3 required + 0-3 defaulted positional-or-keyword parameters, optional *args, 0-2 required + 0-2 defaulted keyword-only "
        "parameters, optional **kw) x callable kind {plain function, bound method, classmethod bound to its class, callable instance, functools.partial "
        "over any of these with 0-2 layers each fixing 0-4 positionals and 0-3 keywords drawn from parameter names + 2 foreign names} x argument list "
        "(half: a valid call with 0-2 edits {drop / add / duplicate-by-keyword / foreign keyword}; half: arbitrary 0-7 positionals + keyword subset). "
        "Oracle = really calling the stub (its body only appends to a log and cannot raise): valid iff the call gets past binding. "
        "isvalid == valid; validate returns None iff valid and raises TypeError (exactly that class) iff invalid; neither ever runs the body. "
        "non-trivial = (keyword-only parameter or partial or method/instance) and the positional count is within 1 of the valid arity window; "
        "distinct = (kind, base, signature shape, partial shape, #positionals, keyword names, valid?)")
ASSUMPTIONS = ['positional-only parameters are not generated (klepto predates them; the property statement lists the parameter kinds)',
               'builtins / C callables are outside the statement ("Python function, method, callable instance or functools.partial")',
               'partials whose construction is itself always-failing are in the domain: every call through them is invalid']

N = {'quick': 4000, 'thorough': 60000}
FUZZ_SECONDS = 180      # thorough tier: coverage-guided campaign over the same strategy and oracle (tools/fuzz.py)
SHARDS = {'quick': 4, 'thorough': 16}

FOREIGN = ['zz', 'yy', 'func']      # 'func': the name validate / isvalid use for their own first parameter
KINDS = ['function', 'method', 'classmethod', 'instance']
FACES = ['plain', 'bound', 'other_instance', 'methodtype', 'partial0']


def all_names(sig):
    return list(sig.get('req', [])) + [n for n, _ in sig.get('opt', [])] + list(sig.get('kwreq', [])) + [n for n, _ in sig.get('kwopt', [])]


@st.composite
def cases(draw, kind, partial):
    sig = draw(S.signatures())
    names = all_names(sig)
    posnames = list(sig.get('req', [])) + [n for n, _ in sig.get('opt', [])]
    kwpool = names + FOREIGN
    layers = []
    if partial:
        for _ in range(draw(st.integers(1, 2))):
            npos = draw(st.sampled_from([0, 0, 1, 1, 2, 3, 4]))
            kws = draw(st.lists(st.sampled_from(kwpool), unique=True, max_size=3)) if draw(st.booleans()) else []
            # functools flattens partial(partial(f, ..), ..) unless the inner partial carries attributes (update_wrapper, __name__ = ...):
            # 'tagged' layers stay nested
            layers.append({'npos': npos, 'kw': kws, 'tagged': draw(st.booleans())})
    # effective arity left after the partial (ignoring errors): used only to aim the generator
    fixed_pos = sum(l['npos'] for l in layers)
    fixed_kw = set(k for l in layers for k in l['kw'])
    remaining = [n for n in posnames[fixed_pos:]]
    req_left = [n for n in remaining if n in sig.get('req', []) and n not in fixed_kw]
    mode = draw(st.sampled_from(['near', 'near', 'free']))
    if mode == 'near':
        # start from a call that supplies the remaining required parameters, some optionals, required kwonly
        upto = len(req_left) + draw(st.integers(0, max(0, len(remaining) - len(req_left))))
        supply = [n for n in remaining[:upto] if n not in fixed_kw]
        split = draw(st.integers(0, len(supply)))
        # positional part must be a prefix of `remaining`; stop at the first name fixed by keyword
        pos = []
        for n in remaining:
            if len(pos) >= split or n in fixed_kw or n not in supply:
                break
            pos.append(n)
        npos = len(pos)
        kw = [n for n in supply if n not in pos]
        kw += [n for n in sig.get('kwreq', []) if n not in fixed_kw]
        kw += [n for n, _ in sig.get('kwopt', []) if draw(st.booleans())]
        for _ in range(draw(st.sampled_from([0, 0, 1, 1, 2]))):
            e = draw(st.sampled_from(['droppos', 'addpos', 'dropkw', 'dupkw', 'foreign', 'refix']))
            if e == 'droppos' and npos:
                npos -= 1
            elif e == 'addpos':
                npos += 1
            elif e == 'dropkw' and kw:
                kw.pop(draw(st.integers(0, len(kw) - 1)))
            elif e == 'dupkw' and posnames:
                kw.append(draw(st.sampled_from(posnames)))
            elif e == 'foreign':
                kw.append(draw(st.sampled_from(FOREIGN)))
            elif e == 'refix' and fixed_kw:
                kw.append(draw(st.sampled_from(sorted(fixed_kw))))
        kw = list(dict.fromkeys(kw))
    else:
        npos = draw(st.integers(0, 7))
        kw = draw(st.lists(st.sampled_from(kwpool), unique=True, max_size=4))
    # validity must not depend on what was inspected before: up to two earlier probes through OTHER faces of the same underlying
    # function (plain function vs bound method vs another instance vs MethodType: they share one code object)
    warm = []
    for _ in range(draw(st.sampled_from([0, 0, 1, 2]))):
        warm.append({'face': draw(st.sampled_from(FACES)), 'npos': draw(st.integers(0, 5)), 'kw': draw(st.lists(st.sampled_from(kwpool), unique=True, max_size=3))})
    # a callable instance that ALSO carries an instance attribute named __call__ (a monkey-patch, a fast-path assigned in __init__): python calls
    # through the type and never looks at it
    own_call = kind == 'instance' and draw(st.integers(0, 2)) == 0
    return {'sig': sig, 'kind': kind, 'partial': bool(partial), 'layers': layers, 'npos': npos, 'kw': kw, 'warm': warm, 'own_call': own_call}


def strata(tier):
    out = []
    for k in KINDS:
        out.append(('%s' % k, cases(k, False)))
        out.append(('partial-of-%s' % k, cases(k, True)))
    return out


# ------------------------------------------------------------ execution

def build_callable(case, log):
    """returns (callable handed to klepto, faces): faces = other callables built on the SAME underlying function object"""
    sig = case['sig']
    kind = case['kind']
    defaults = dict((n, 0) for n, _ in list(sig.get('opt', [])) + list(sig.get('kwopt', [])))

    def body(named, va, vk):
        log.append(1)
        return None
    ns = {'_D': defaults, '_body': body}
    faces = {}
    if kind == 'function':
        exec(compile(sig_source(sig, 'f'), '<generated f>', 'exec'), ns)
        target = ns['f']

        class Obj(object):
            pass
        faces['plain'] = target
        faces['bound'] = types.MethodType(target, Obj()) if sig.get('req') or sig.get('opt') or sig.get('varargs') else target
        faces['other_instance'] = faces['bound']
        faces['methodtype'] = faces['bound']
        faces['partial0'] = functools.partial(target)
    else:
        first = 'cls' if kind == 'classmethod' else 'self'
        s2 = dict(sig)
        s2['req'] = [first] + list(sig.get('req', []))
        src = sig_source(s2, '__call__' if kind == 'instance' else 'm')
        lines = src.splitlines()
        deco = '    @classmethod\n' if kind == 'classmethod' else ''
        csrc = 'class K(object):\n' + deco + '\n'.join('    ' + l for l in lines) + '\n'
        exec(compile(csrc, '<generated K>', 'exec'), ns)
        K = ns['K']
        inst, inst2 = K(), K()
        if kind == 'method':
            target = inst.m
            faces['plain'] = K.m                      # the function itself: wants the instance as first argument
            faces['bound'] = inst.m
            faces['other_instance'] = inst2.m
            faces['methodtype'] = types.MethodType(K.m, inst2)
            faces['partial0'] = functools.partial(K.m, inst)
        elif kind == 'classmethod':
            target = K.m
            faces['plain'] = K.__dict__['m'].__func__  # underlying function: wants cls as first argument
            faces['bound'] = K.m
            faces['other_instance'] = inst.m
            faces['methodtype'] = types.MethodType(K.__dict__['m'].__func__, K)
            faces['partial0'] = functools.partial(K.m)
        else:
            target = inst
            faces['plain'] = K.__call__
            faces['bound'] = inst.__call__
            faces['other_instance'] = inst2
            faces['methodtype'] = types.MethodType(K.__call__, inst2)
            faces['partial0'] = functools.partial(inst)
            if case.get('own_call'):
                # instance attributes holding BOUND methods with other signatures; irrelevant to inst(...)
                inst.__call__ = types.MethodType(lambda self_: None, inst)
                inst2.__call__ = types.MethodType(lambda self_, only_this_one: None, inst2)
    vals = iter(range(100, 200))
    for l in case['layers']:
        target = functools.partial(target, *[next(vals) for _ in range(l['npos'])], **dict((k, next(vals)) for k in l['kw']))
        if l.get('tagged'):
            target.__name__ = 'tagged_partial'       # an instance attribute: a partial built on top of this one is NOT flattened
    return target, faces


def python_says(target, a, k, log):
    """valid iff the call gets past binding: the body cannot raise, so any TypeError is a binding error"""
    n = len(log)
    try:
        target(*a, **k)
    except TypeError:
        if len(log) != n:
            raise RuntimeError('stub body ran and TypeError escaped')   # cannot happen
        return False
    if len(log) != n + 1:
        raise RuntimeError('call returned without running the body')
    return True


def probe(klepto, target, a, k, log, tag, desc, kwonly, out):
    """one validity question, judged against really calling the stub; returns valid?"""
    valid = python_says(target, a, k, log)
    n0 = len(log)
    suffix = '/kwonly' if kwonly else ''
    try:
        r = klepto.isvalid(target, *a, **k)
        if r is not valid:
            out.append(Discrepancy('C19/%s/isvalid-%s-for-%s-call%s' % (tag, r, 'valid' if valid else 'invalid', suffix),
                                   'isvalid(%s, *%r, **%r) = %r but the call %s' % (desc, a, k, r, 'binds' if valid else 'fails binding')))
    except Exception as e:
        out.append(Discrepancy('C19/%s/isvalid-raised/%s' % (tag, exc_sig(e)), '%s *%r **%r: %r' % (desc, a, k, e)))
    try:
        r = klepto.validate(target, *a, **k)
        if not valid:
            out.append(Discrepancy('C19/%s/validate-accepts-invalid-call%s' % (tag, suffix),
                                   'validate(%s, *%r, **%r) returned %r but the call fails binding' % (desc, a, k, r)))
        elif r is not None:
            out.append(Discrepancy('C19/%s/validate-returns-non-None' % tag, repr(r)))
    except TypeError as e:
        if valid:
            out.append(Discrepancy('C19/%s/validate-rejects-valid-call%s' % (tag, suffix),
                                   'validate(%s, *%r, **%r) raised %r but the call binds' % (desc, a, k, e)))
    except Exception as e:
        out.append(Discrepancy('C19/%s/validate-raised-non-TypeError/%s' % (tag, type(e).__name__),
                               '%s *%r **%r (%s call): %r' % (desc, a, k, 'valid' if valid else 'invalid', e)))
    if len(log) != n0:
        out.append(Discrepancy('C19/%s/function-was-called' % tag, '%d evaluation(s) during isvalid/validate' % (len(log) - n0)))
    return valid


def run_case(case):
    import klepto
    out = []
    log = []
    target, faces = build_callable(case, log)
    a = tuple(range(case['npos']))
    k = dict((n, 50 + i) for i, n in enumerate(case['kw']))
    sig = case['sig']
    kwonly = S.has_kwonly(sig)
    kindtag = ('partial-of-' if case['partial'] else '') + case['kind']
    classes = ['kind:' + kindtag]
    if len(case['layers']) >= 2 and case['layers'][0].get('tagged'):
        classes.append('nested_unflattened_partial')
    for w in case.get('warm', []):
        wa = tuple(range(w['npos']))
        if w['face'] == 'plain' and case['kind'] != 'function':
            wa = (object(),) + wa           # the explicit instance / class slot
        wk = dict((n, 60 + i) for i, n in enumerate(w['kw']))
        probe(klepto, faces[w['face']], wa, wk, log, 'face-%s-of-%s' % (w['face'], case['kind']), 'face %s of %s' % (w['face'], describe(case)), kwonly, out)
        classes.append('warm_face:' + w['face'])
    if out:
        return out, None, classes
    if case.get('own_call'):
        classes.append('instance_attribute_named___call__')
    valid = probe(klepto, target, a, k, log, kindtag + ('/after-other-face' if case.get('warm') else ''), describe(case), kwonly, out)
    classes.append('valid' if valid else 'invalid')
    if kwonly:
        classes.append('kwonly')
    if sig.get('varargs'):
        classes.append('varargs')
    if sig.get('varkw'):
        classes.append('varkw')
    # non-trivial rule
    posn = len(sig.get('req', [])) + len(sig.get('opt', []))
    fixed = sum(l['npos'] for l in case['layers'])
    lo = max(0, len(sig.get('req', [])) - fixed - len(case['kw']))
    hi = max(0, posn - fixed)
    near = lo - 1 <= case['npos'] <= hi + 1
    nt = None
    if (kwonly or case['partial'] or case['kind'] != 'function') and near:
        nt = (kindtag, shape(sig), [(l['npos'], sorted(l['kw'])) for l in case['layers']], case['npos'], sorted(case['kw']), valid)
        classes.append('near_arity')
    return out, nt, classes


def shape(sig):
    return (len(sig.get('req', [])), len(sig.get('opt', [])), bool(sig.get('varargs')), len(sig.get('kwreq', [])), len(sig.get('kwopt', [])),
            bool(sig.get('varkw')))


def describe(case):
    sig = case['sig']
    parts = list(sig.get('req', [])) + ['%s=0' % n for n, _ in sig.get('opt', [])]
    if sig.get('varargs'):
        parts.append('*_a')
    elif S.has_kwonly(sig):
        parts.append('*')
    parts += list(sig.get('kwreq', [])) + ['%s=0' % n for n, _ in sig.get('kwopt', [])]
    if sig.get('varkw'):
        parts.append('**_k')
    d = '%s f(%s)' % (case['kind'], ', '.join(parts))
    for l in case['layers']:
        d = 'partial(%s, <%d positional>%s)' % (d, l['npos'], ''.join(', %s=..' % k for k in l['kw']))
    return d


REQUIRED_CLASSES = ['instance_attribute_named___call__', 'nested_unflattened_partial', 'valid', 'invalid', 'kwonly', 'varargs', 'varkw', 'near_arity'] + ['warm_face:' + f for f in FACES] + ['kind:' + k for k in KINDS] + ['kind:partial-of-' + k for k in KINDS]


def _t_kwonly(case, discr):
    return S.has_kwonly(case['sig'])


TRIGGERS = {}
