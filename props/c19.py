"""C19 validate/isvalid agree with Python's own argument binding."""
import functools, inspect
from hypothesis import strategies as st
from harness import sigs as S
from harness.cachehist import sig_source, exc_sig
from harness.core import Discrepancy

PROP = 'C19'
LEVEL = 'exploration'
RULE = ("cases = signature (0-3 required + 0-3 defaulted positional-or-keyword parameters, optional *args, 0-2 required + 0-2 defaulted keyword-only "
        "parameters, optional **kw) x callable kind {plain function, bound method, classmethod bound to its class, callable instance, functools.partial "
        "over any of these with 0-2 layers each fixing 0-4 positionals and 0-3 keywords drawn from parameter names + 2 foreign names} x argument list "
        "(half: a valid call with 0-2 edits {drop / add / duplicate-by-keyword / foreign keyword}; half: arbitrary 0-7 positionals + keyword subset). "
        "Oracle = really calling the stub (its body only appends to a log and cannot raise): valid iff the call gets past binding. "
        "isvalid == valid; validate returns None iff valid and raises TypeError (exactly that class) iff invalid; neither ever runs the body. "
        "non-trivial = (keyword-only parameter or partial or method/instance) and the positional count is within 1 of the valid arity window; "
        "distinct = (kind, base, signature shape, partial shape, #positionals, keyword names, valid?)")
ASSUMPTIONS = ['positional-only parameters are not generated (klepto predates them; the property statement lists the parameter kinds)',
               'builtins / C callables are outside the statement ("Python function, method, callable instance or functools.partial")',
               'partials whose construction is itself always-failing are in the domain: every call through them is invalid']

N = {'quick': 4000, 'thorough': 60000}
SHARDS = {'quick': 4, 'thorough': 16}

FOREIGN = ['zz', 'yy']
KINDS = ['function', 'method', 'classmethod', 'instance']


def all_names(sig):
    return list(sig.get('req', [])) + [n for n, _ in sig.get('opt', [])] + list(sig.get('kwreq', [])) + [n for n, _ in sig.get('kwopt', [])]


@st.composite
def cases(draw, kind, partial):
    sig = draw(S.signatures())
    names = all_names(sig)
    posnames = list(sig.get('req', [])) + [n for n, _ in sig.get('opt', [])]
    kwpool = names + FOREIGN
    layers = []
    if partial:
        for _ in range(draw(st.integers(1, 2))):
            npos = draw(st.sampled_from([0, 0, 1, 1, 2, 3, 4]))
            kws = draw(st.lists(st.sampled_from(kwpool), unique=True, max_size=3)) if draw(st.booleans()) else []
            layers.append({'npos': npos, 'kw': kws})
    # effective arity left after the partial (ignoring errors): used only to aim the generator
    fixed_pos = sum(l['npos'] for l in layers)
    fixed_kw = set(k for l in layers for k in l['kw'])
    remaining = [n for n in posnames[fixed_pos:]]
    req_left = [n for n in remaining if n in sig.get('req', []) and n not in fixed_kw]
    mode = draw(st.sampled_from(['near', 'near', 'free']))
    if mode == 'near':
        # start from a call that supplies the remaining required parameters, some optionals, required kwonly
        upto = len(req_left) + draw(st.integers(0, max(0, len(remaining) - len(req_left))))
        supply = [n for n in remaining[:upto] if n not in fixed_kw]
        split = draw(st.integers(0, len(supply)))
        # positional part must be a prefix of `remaining`; stop at the first name fixed by keyword
        pos = []
        for n in remaining:
            if len(pos) >= split or n in fixed_kw or n not in supply:
                break
            pos.append(n)
        npos = len(pos)
        kw = [n for n in supply if n not in pos]
        kw += [n for n in sig.get('kwreq', []) if n not in fixed_kw]
        kw += [n for n, _ in sig.get('kwopt', []) if draw(st.booleans())]
        for _ in range(draw(st.sampled_from([0, 0, 1, 1, 2]))):
            e = draw(st.sampled_from(['droppos', 'addpos', 'dropkw', 'dupkw', 'foreign', 'refix']))
            if e == 'droppos' and npos:
                npos -= 1
            elif e == 'addpos':
                npos += 1
            elif e == 'dropkw' and kw:
                kw.pop(draw(st.integers(0, len(kw) - 1)))
            elif e == 'dupkw' and posnames:
                kw.append(draw(st.sampled_from(posnames)))
            elif e == 'foreign':
                kw.append(draw(st.sampled_from(FOREIGN)))
            elif e == 'refix' and fixed_kw:
                kw.append(draw(st.sampled_from(sorted(fixed_kw))))
        kw = list(dict.fromkeys(kw))
    else:
        npos = draw(st.integers(0, 7))
        kw = draw(st.lists(st.sampled_from(kwpool), unique=True, max_size=4))
    return {'sig': sig, 'kind': kind, 'partial': bool(partial), 'layers': layers, 'npos': npos, 'kw': kw}


def strata(tier):
    out = []
    for k in KINDS:
        out.append(('%s' % k, cases(k, False)))
        out.append(('partial-of-%s' % k, cases(k, True)))
    return out


# ------------------------------------------------------------ execution

def build_callable(case, log):
    """returns (callable handed to klepto, description)"""
    sig = case['sig']
    kind = case['kind']
    defaults = dict((n, 0) for n, _ in list(sig.get('opt', [])) + list(sig.get('kwopt', [])))

    def body(named, va, vk):
        log.append(1)
        return None
    ns = {'_D': defaults, '_body': body}
    if kind == 'function':
        exec(compile(sig_source(sig, 'f'), '<generated f>', 'exec'), ns)
        target = ns['f']
    else:
        first = 'cls' if kind == 'classmethod' else 'self'
        s2 = dict(sig)
        s2['req'] = [first] + list(sig.get('req', []))
        src = sig_source(s2, '__call__' if kind == 'instance' else 'm')
        # the generated body reports (first, ...) among named; harmless
        lines = src.splitlines()
        deco = '    @classmethod\n' if kind == 'classmethod' else ''
        csrc = 'class K(object):\n' + deco + '\n'.join('    ' + l for l in lines) + '\n'
        exec(compile(csrc, '<generated K>', 'exec'), ns)
        K = ns['K']
        if kind == 'method':
            target = K().m
        elif kind == 'classmethod':
            target = K.m
        else:
            target = K()
    vals = iter(range(100, 200))
    for l in case['layers']:
        target = functools.partial(target, *[next(vals) for _ in range(l['npos'])], **dict((k, next(vals)) for k in l['kw']))
    return target


def python_says(target, a, k, log):
    """valid iff the call gets past binding: the body cannot raise, so any TypeError is a binding error"""
    n = len(log)
    try:
        target(*a, **k)
    except TypeError:
        if len(log) != n:
            raise RuntimeError('stub body ran and TypeError escaped')   # cannot happen
        return False
    if len(log) != n + 1:
        raise RuntimeError('call returned without running the body')
    return True


def run_case(case):
    import klepto
    out = []
    log = []
    target = build_callable(case, log)
    a = tuple(range(case['npos']))
    k = dict((n, 50 + i) for i, n in enumerate(case['kw']))
    sig = case['sig']
    valid = python_says(target, a, k, log)
    kwonly = S.has_kwonly(sig)
    kindtag = ('partial-of-' if case['partial'] else '') + case['kind']
    classes = ['kind:' + kindtag, 'valid' if valid else 'invalid']
    if kwonly:
        classes.append('kwonly')
    if sig.get('varargs'):
        classes.append('varargs')
    if sig.get('varkw'):
        classes.append('varkw')
    n0 = len(log)
    # isvalid
    try:
        r = klepto.isvalid(target, *a, **k)
        if r is not valid:
            out.append(Discrepancy('C19/%s/isvalid-%s-for-%s-call%s' % (kindtag, r, 'valid' if valid else 'invalid', '/kwonly' if kwonly else ''),
                                   'isvalid(%s, *%r, **%r) = %r but the call %s' % (describe(case), a, k, r, 'binds' if valid else 'fails binding')))
    except Exception as e:
        out.append(Discrepancy('C19/%s/isvalid-raised/%s' % (kindtag, exc_sig(e)), '%s *%r **%r: %r' % (describe(case), a, k, e)))
    # validate
    try:
        r = klepto.validate(target, *a, **k)
        if not valid:
            out.append(Discrepancy('C19/%s/validate-accepts-invalid-call%s' % (kindtag, '/kwonly' if kwonly else ''),
                                   'validate(%s, *%r, **%r) returned %r but the call fails binding' % (describe(case), a, k, r)))
        elif r is not None:
            out.append(Discrepancy('C19/%s/validate-returns-non-None' % kindtag, repr(r)))
    except TypeError as e:
        if valid:
            out.append(Discrepancy('C19/%s/validate-rejects-valid-call%s' % (kindtag, '/kwonly' if kwonly else ''),
                                   'validate(%s, *%r, **%r) raised %r but the call binds' % (describe(case), a, k, e)))
    except Exception as e:
        out.append(Discrepancy('C19/%s/validate-raised-non-TypeError/%s' % (kindtag, type(e).__name__),
                               '%s *%r **%r (%s call): %r' % (describe(case), a, k, 'valid' if valid else 'invalid', e)))
    if len(log) != n0:
        out.append(Discrepancy('C19/%s/function-was-called' % kindtag, '%d evaluation(s) during isvalid/validate' % (len(log) - n0)))
    # non-trivial rule
    posn = len(sig.get('req', [])) + len(sig.get('opt', []))
    fixed = sum(l['npos'] for l in case['layers'])
    lo = max(0, len(sig.get('req', [])) - fixed - len(case['kw']))
    hi = max(0, posn - fixed)
    near = lo - 1 <= case['npos'] <= hi + 1
    nt = None
    if (kwonly or case['partial'] or case['kind'] != 'function') and near:
        nt = (kindtag, shape(sig), [(l['npos'], sorted(l['kw'])) for l in case['layers']], case['npos'], sorted(case['kw']), valid)
        classes.append('near_arity')
    return out, nt, classes


def shape(sig):
    return (len(sig.get('req', [])), len(sig.get('opt', [])), bool(sig.get('varargs')), len(sig.get('kwreq', [])), len(sig.get('kwopt', [])),
            bool(sig.get('varkw')))


def describe(case):
    sig = case['sig']
    parts = list(sig.get('req', [])) + ['%s=0' % n for n, _ in sig.get('opt', [])]
    if sig.get('varargs'):
        parts.append('*_a')
    elif S.has_kwonly(sig):
        parts.append('*')
    parts += list(sig.get('kwreq', [])) + ['%s=0' % n for n, _ in sig.get('kwopt', [])]
    if sig.get('varkw'):
        parts.append('**_k')
    d = '%s f(%s)' % (case['kind'], ', '.join(parts))
    for l in case['layers']:
        d = 'partial(%s, <%d positional>%s)' % (d, l['npos'], ''.join(', %s=..' % k for k in l['kw']))
    return d


REQUIRED_CLASSES = ['valid', 'invalid', 'kwonly', 'varargs', 'varkw', 'near_arity'] + ['kind:' + k for k in KINDS] + ['kind:partial-of-' + k for k in KINDS]


def _t_kwonly(case, discr):
    return S.has_kwonly(case['sig'])


TRIGGERS = {}
