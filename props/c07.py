"""C07 nothing is lost on eviction: leaving memory means being in the archive."""
from hypothesis import strategies as st
from harness import cachehist as H, cachegen as G
from harness.core import Discrepancy
from props._cc import has, base_classes, same, outcome

PROP = 'C07'
LEVEL = 'exploration'
RULE = ("cases = (lru/mru/lfu/rr/no x std/safe) x maxsize{1,2,3,5} x purge on/off x archive backend {dict,file pkl/json/src,dir dill/fast/z/json/src,"
        "sqlite mem/file} x history of calls, bursts, load, dump, keyed load/dump, clear, direct archive writes of correct entries, entries deleted from the archive by somebody else, the archive REPLACED by another one through f.archive(obj) while archiving is on, late archive toggles; directory archives also named by a RELATIVE path with the working directory changed during the history. "
        "Oracle per call with archiving on: every key in (resident_before + new) - resident_after is in the archive afterwards with the same value; "
        "archive_after is a superset of archive_before with identical values; every result ever computed and not explicitly cleared is in "
        "resident or archive. non-trivial = an eviction or purge happened with a non-null archive; distinct = (class, purge, backend, "
        "victim-was-loaded?, sequence of per-call (outcome, number removed))")
ASSUMPTIONS = ['keys are alias-free for dir archives (generator avoids the dir-archive file-name aliasing finding of C03)',
               'global retrievability is only asserted while the archive has been on since the result was computed']

N = {'quick': 500, 'thorough': 2500}
SHARDS = {'quick': 4, 'thorough': 16}

BACKENDS = ('cache_dict', 'cache_file_pkl', 'cache_dir_dill', 'cache_sql_mem', 'cache_file_json', 'cache_dir_fast',
            'cache_dir_json', 'cache_file_src', 'cache_dir_z', 'cache_sql_file', 'cache_dir_src', 'none')


def _with_replacement(pair):
    case, pick = pair
    if H.effective_algo(case) == 'no':
        # the non-caching decorator holds a result only for the duration of a call; entries made resident by an explicit bulk load() are copies of
        # archive entries and are dropped (not 'evicted') by the next call. After the archive was replaced or emptied by somebody else such a copy has
        # no archive entry any more - not an eviction of a computed result: archive replacement / external deletion are not combined with it
        return dict(case, ops=[op for op in case['ops'] if op[0] not in ('reattach', 'adel')])
    if pick and H.backend_archived(case['backend']) and not case.get('attach_later') and not case.get('relpath'):
        # constructed opening: fill and overflow (entries reach the archive), ask for the first one again (it comes back through a LOAD),
        # replace the archive - or have somebody delete that entry from it - and overflow once more: what leaves memory now must be in the archive attached NOW
        n = len(case['pool'])
        mid = [['reattach']] if pick == 1 else [['adel', [0, 1]]]
        case = dict(case, ops=[['sweep', 0, n], ['call', 0, 0, 0], ['call', 1, 0, 0]] + mid + [['sweep', 0, n], ['sweep', 0, n]] + list(case['ops']))
    return case


def strata(tier):
    return [(e[0], st.tuples(e[1], st.sampled_from([0, 0, 1, 2])).map(_with_replacement)) if not e[0].startswith('unstorable-result') else e for e in _strata(tier)]


def _strata(tier):
    return [('unstorable-result/' + a, unstorable_cases(a)) for a in ('lru', 'lfu', 'mru', 'rr')] + G.strata_grid(
        algos=('lru', 'mru', 'lfu', 'rr', 'no'), maxsizes=(2, 1, 3, 5), purges=(False, True), backends=BACKENDS, families=('memarch', 'persist'),
        weights={'call': 14, 'burst': 1, 'load': 2, 'dump': 1, 'dumpk': 1, 'loadk': 1, 'clear': 1, 'clearkeep': 0,
                 'arch_off': 1, 'arch_on': 2, 'awrite': 1, 'reattach': 1, 'adel': 1},
        max_ops=30 if tier == 'quick' else 60, pool=(3, 7), prefill_pct=10, attach_later_pct=25, relpath_pct=40)


def check_trace(case, tr):
    out = []
    ev = []
    flags = {'evicted_to_archive': 0, 'purged_to_archive': 0, 'victim_was_loaded': 0, 'late_attach': 0}
    if tr.setup_exc is not None:
        out.append(Discrepancy('C07/decorate/%s' % H.exc_sig(tr.setup_exc), repr(tr.setup_exc)))
        return out, ev, flags
    computed = {}       # key -> value, for results that must stay retrievable
    loaded = set()
    archive_on_since_start = True
    seen_off = False
    for i, s in enumerate(tr.steps):
        if s.exc is not None and not (s.kind in ('arch_on', 'arch_off') and isinstance(s.exc, ValueError)):
            out.append(Discrepancy('C07/%s/raised/%s' % (s.kind, H.exc_sig(s.exc)), 'step %d %r: %r' % (i, s.op, s.exc)))
            return out, ev, flags
        if s.kind == 'arch_off':
            seen_off = True
            computed.clear()
        if s.kind == 'arch_on' and seen_off:
            flags['late_attach'] += 1
        if s.kind == 'attach' and case.get('attach_later'):
            flags['attached_after_decoration'] = flags.get('attached_after_decoration', 0) + 1
            if s.result is False:
                out.append(Discrepancy('C07/attach/archive-not-attached', 'step %d: f.archive(%s handle) returned normally but f.archived() is False: nothing that leaves memory from now on reaches the archive' % (
                    i, 'cached' if case.get('attach_cached') else 'bare')))
                return out, ev, flags
            if case.get('attach_cached'):
                flags['attached_cached_handle'] = flags.get('attached_cached_handle', 0) + 1
        if s.kind == 'reattach' and s.result == 'reattached':
            # another archive is attached now: what only the previous one held is no longer 'in the archive'
            flags['archive_replaced'] = flags.get('archive_replaced', 0) + 1
            for k in list(computed):
                if not has(s.post_mem or {}, k):
                    del computed[k]
        if s.kind == 'adel' and s.result == 'deleted':
            # entries removed from the archive by somebody else are explicitly gone (unless still resident)
            flags['archive_entry_deleted_externally'] = flags.get('archive_entry_deleted_externally', 0) + 1
            for k in list(computed):
                if not has(s.post_mem or {}, k) and not has(s.post_arch or {}, k):
                    del computed[k]
        if s.kind in ('clear', 'clearkeep'):
            # memory-only results are explicitly cleared
            arch = s.post_arch or {}
            for k in list(computed):
                if not has(arch, k):
                    del computed[k]
            ev.append('clear')
        if s.kind == 'call':
            key = s.key
            oc = outcome(s)
            if oc == 'load':
                loaded.add(repr(key))
            pre, post = s.pre_mem, s.post_mem
            newval = s.result
            removed = [k for k in list(pre.keys()) + ([key] if not has(pre, key) else []) if not has(post, k)]
            if s.pre_arch is not None and s.post_arch is not None:
                for k in removed:
                    val = pre[k] if has(pre, k) else newval
                    if not has(s.post_arch, k):
                        out.append(Discrepancy('C07/%s/left-memory-not-in-archive' % H.effective_algo(case),
                                               'step %d: %r left memory but is not in the archive' % (i, k)))
                        return out, ev, flags
                    if not same(s.post_arch[k], val):
                        out.append(Discrepancy('C07/%s/archived-value-differs' % H.effective_algo(case),
                                               'step %d: %r archived as %r, was %r' % (i, k, s.post_arch[k], val)))
                        return out, ev, flags
                    if repr(k) in loaded:
                        flags['victim_was_loaded'] += 1
                if removed:
                    if len(post) == 0 and len(removed) > 1 or (H.effective_purge(case) and len(post) == 0):
                        flags['purged_to_archive'] += 1
                    else:
                        flags['evicted_to_archive'] += 1
                for k, v in s.pre_arch.items():
                    if not has(s.post_arch, k):
                        out.append(Discrepancy('C07/archive-entry-removed-by-call', 'step %d: %r disappeared from the archive' % (i, k)))
                        return out, ev, flags
                    if not same(s.post_arch[k], v):
                        out.append(Discrepancy('C07/archive-entry-changed-by-call', 'step %d: %r: %r -> %r' % (i, k, v, s.post_arch[k])))
                        return out, ev, flags
                if oc == 'miss':
                    computed[key] = newval
            ev.append('%s%d' % (oc[0], len(removed)))
        # global retrievability
        if s.post_arch is not None and s.post_mem is not None:
            for k, v in computed.items():
                if has(s.post_mem, k):
                    if not same(s.post_mem[k], v):
                        out.append(Discrepancy('C07/resident-value-differs', 'step %d: %r' % (i, k)))
                        return out, ev, flags
                elif has(s.post_arch, k):
                    if not same(s.post_arch[k], v):
                        out.append(Discrepancy('C07/archived-value-differs-later', 'step %d: %r: %r vs %r' % (i, k, s.post_arch[k], v)))
                        return out, ev, flags
                else:
                    out.append(Discrepancy('C07/computed-result-lost', 'step %d (%s): %r neither resident nor archived' % (i, s.kind, k)))
                    return out, ev, flags
    return out, ev, flags


# ------------------------------------------------------------ results the archive cannot encode

@st.composite
def unstorable_cases(draw, algo=None):
    """a result the attached archive cannot store (tuple for sqlite, generator for the pickling archives): the eviction that should write it fails.
    'before it is dropped': an entry whose archive write failed must not leave memory"""
    backend = draw(st.sampled_from(['sql_mem', 'file_pkl', 'dir_dill', 'sql_file']))
    return {'mode': 'unstorable', 'module': draw(st.sampled_from(['std', 'safe'])), 'algo': algo or draw(st.sampled_from(['lru', 'lfu', 'mru', 'rr'])),
            'maxsize': draw(st.integers(1, 3)), 'backend': backend, 'poison': draw(st.integers(0, 5)),
            'calls': draw(st.lists(st.tuples(st.integers(0, 5), st.integers(0, 7)).map(list), min_size=3, max_size=14))}


def run_unstorable(case):
    import random, tempfile, shutil, klepto, klepto.safe
    from harness import arch as A
    root = tempfile.mkdtemp(prefix='c07u_', dir=H._tmproot())
    out = []
    classes = ['mode:unstorable', 'algo:' + case['algo'], 'module:' + case['module']]
    try:
        log = []
        bad = (1, 2) if case['backend'].startswith('sql') else (i for i in range(2))

        def fn(x):
            log.append(x)
            return bad if x == case['poison'] else 'r%d' % x
        try:
            c = A.open_archive(case['backend'], root, 'A', cached=True)
            mod = klepto.safe if case['module'] == 'safe' else klepto
            f = getattr(mod, case['algo'] + '_cache')(maxsize=case['maxsize'], cache=c, keymap=klepto.keymaps.stringmap())(fn)
        except Exception as e:
            return [Discrepancy('C07/unstorable/decorate/%s' % H.exc_sig(e), 'opening the archive / decorating raised %r' % (e,))], None, classes
        computed = {}
        failed_writes = 0
        for i, (x, rs) in enumerate(case['calls']):
            random.seed(rs)
            n0 = len(log)
            try:
                f(x)
            except Exception as e:
                failed_writes += 1          # the archive refused the poison entry (std and safe both let that error out)
            if len(log) > n0:
                computed[f.key(x)] = bad if x == case['poison'] else 'r%d' % x
            mem = dict(f.__cache__())
            try:
                arch = dict(c.archive.items())
            except Exception as e:
                out.append(Discrepancy('C07/unstorable/archive-unreadable/%s' % H.exc_sig(e), repr(e)))
                break
            for k, v in computed.items():
                if k in mem:
                    if (mem[k] is not v) and mem[k] != v:
                        out.append(Discrepancy('C07/unstorable/resident-value-differs', 'step %d: %r' % (i, k)))
                elif k in arch:
                    if arch[k] != v:
                        out.append(Discrepancy('C07/unstorable/archived-value-differs', 'step %d: %r' % (i, k)))
                else:
                    out.append(Discrepancy('C07/%s/entry-dropped-although-archive-write-failed' % case['algo'],
                                           'step %d (call %r): result of key %r is neither in memory %r nor in the archive %r' % (i, x, k, sorted(mem), sorted(arch))))
            if out:
                break
        if failed_writes:
            classes.append('archive_refused_victim')
        conn = getattr(c.archive, '_conn', None)
        if conn is not None:
            conn.close()
        nt = ('unstorable', case['module'], case['algo'], case['backend'], case['maxsize'], failed_writes > 0, len(case['calls'])) if failed_writes else None
        return out, nt, classes
    finally:
        shutil.rmtree(root, ignore_errors=True)


def run_case(case):
    if case.get('mode') == 'unstorable':
        return run_unstorable(case)
    tr = H.run_history(case)
    discrs, ev, flags = check_trace(case, tr)
    classes = base_classes(case)
    for k, v in flags.items():
        if v:
            classes.append(k)
    nt = None
    if flags['evicted_to_archive'] or flags['purged_to_archive']:
        nt = (case['module'], case['algo'], case['purge'], case['backend'], bool(flags['victim_was_loaded']), ev)
    return discrs, nt, sorted(set(classes))


def extra_passes(run, tier, shard, nshards):
    from props._cc import exhaustive_sweep
    exhaustive_sweep(run, tier, shard, nshards, lambda case, tr: check_trace(case, tr)[0])


REQUIRED_CLASSES = ['attached_cached_handle', 'archive_replaced', 'archive_entry_deleted_externally', 'relative_dir_archive:new', 'chdir_away', 'archive_refused_victim', 'attached_after_decoration', 'evicted_to_archive', 'purged_to_archive', 'victim_was_loaded', 'late_attach',
                    'eff_algo:lfu', 'eff_algo:mru', 'eff_algo:rr', 'eff_algo:no', 'module:safe']
TRIGGERS = {}
