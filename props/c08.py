"""C08 cache/archive synchronisation algebra (dump, load, sync, toggle, open, drop)."""
import os, shutil, tempfile, copy
from hypothesis import strategies as st
from harness import arch as A, values as V
from harness.cachehist import exc_sig, _tmproot
from harness.core import Discrepancy

PROP = 'C08'
LEVEL = 'exploration'
RULE = ("cases = initial archive kind (null, dict, file x {pickle, json, source}, dir x {dill, fast, compressed, json, source}, sqlite x {memory, file}) "
        "behind klepto's in-memory cache x up to 30 operations: cache mutations (set/del/pop/update/clear), direct mutations of any archive the case "
        "has created (also while it is parked or after it was replaced), dump(), dump(k...) incl. keys absent from the cache, load(), load(k...) incl. "
        "keys absent from the archive, sync(), sync(clear=True), archived(False), archived(True), archived(), open(new archive), archive = new, drop(). "
        "Oracle = two-dict + flag model written from the property statement: cache ops leave every archive untouched; dump: archive |= cache (restricted "
        "to the given keys that are cached); load: cache |= archive (restricted to given keys that are archived); sync: both = archive | cache; "
        "sync(clear=True): archive = cache; while off nothing reaches the parked archive and the cache is unchanged by dump/load/sync; a null archive "
        "stays {}; ValueError exactly where the docstrings say (archived(True)/drop() with no archive). After EVERY step dict(cache), the contents of "
        "every archive ever attached, archived() and the identity of cache.archive are compared. non-trivial = a dump/load/sync executed while cache "
        "and archive hold conflicting values for a key, or a toggle-off .. mutate .. toggle-on sandwich; distinct = (kind, op-kind sequence)")
ASSUMPTIONS = ['str keys (accepted by every backend) or, where every involved backend takes them, int keys as hashing keymaps produce and scalar values (accepted by every codec)', 'hdf / sqlalchemy back ends are not installed']

N = {'quick': 1500, 'thorough': 30000}
SHARDS = {'quick': 4, 'thorough': 16}

KINDS = ['null', 'dict', 'file_pkl', 'file_json', 'file_src', 'dir_dill', 'dir_fast', 'dir_z', 'dir_json', 'dir_src', 'sql_mem', 'sql_file']
KEYS = ['a', 'b', 'c', 'OK_1', '(1, 2)']      # 'OK_1' contains the directory archives' own entry prefix 'K_'
OPS = ['cset', 'cset', 'cset', 'cdel', 'cpop', 'cupdate', 'cclear', 'aset', 'aset', 'aset', 'adel', 'aclear', 'dump', 'dump', 'dumpk', 'dumpk', 'load', 'load',
       'loadk', 'loadk', 'sync', 'sync', 'syncclear', 'off', 'on', 'on', 'query', 'open', 'assign', 'drop']


@st.composite
def cases(draw, kind):
    vals = st.one_of(st.integers(0, 9), st.sampled_from(['x', 'y', '']))
    ki = st.integers(0, len(KEYS) - 1)
    n = draw(st.integers(1, 30))
    ops = []
    # half of the cases start from a constructed conflict (cache and archive disagree on a key) and/or an off..mutate..on sandwich,
    # so that the interesting classes do not depend on luck; the rest of the history is free
    scen = draw(st.sampled_from(['free', 'conflict', 'conflict', 'sandwich']))
    if scen != 'free':
        k0 = draw(ki)
        ops.append(['cset', k0, draw(st.integers(0, 4)), 0])
        if draw(st.booleans()):
            ops.append(['dump'])
        if scen == 'sandwich':
            ops.append(['off'])
        ops.append(['aset', k0, draw(st.sampled_from([5, 6, 'x'])), 0])
        if draw(st.booleans()):
            ops.append(['cset', draw(ki), draw(vals), 0])
        if scen == 'sandwich':
            ops.append(['on'])
        ops.append([draw(st.sampled_from(['dump', 'load', 'sync', 'syncclear', 'dumpk', 'loadk']))])
        if ops[-1][0] in ('dumpk', 'loadk'):
            ops[-1].append([k0] + draw(st.lists(ki, max_size=2)))
    for _ in range(n):
        k = draw(st.sampled_from(OPS))
        if k in ('cset', 'aset'):
            ops.append([k, draw(ki), draw(vals), draw(st.integers(0, 3))])
        elif k in ('cdel', 'cpop', 'adel'):
            ops.append([k, draw(ki), draw(st.integers(0, 3))])
        elif k == 'cupdate':
            ops.append([k, [[draw(ki), draw(vals)] for _ in range(draw(st.integers(0, 3)))]])
        elif k in ('dumpk', 'loadk'):
            ops.append([k, draw(st.lists(ki, min_size=1, max_size=3))])
        elif k in ('open', 'assign'):
            ops.append([k, draw(st.sampled_from(['dict', 'dict', 'null', 'file_pkl', 'dir_dill', 'sql_file', kind]))])
        elif k == 'aclear':
            ops.append([k, draw(st.integers(0, 3))])
        else:
            ops.append([k])
    # keys as a hashing keymap produces them (ints): directory archives store such keys through an extra input file per entry
    keyfam = 'int' if (all(A.key_ok(k, 3) for k in (kind, 'file_pkl', 'dir_dill', 'sql_file')) and draw(st.integers(0, 2)) == 0) else 'str'
    # what the comparison after each step asks the archives for: the whole contents, only the key listing, or value lookups without listing
    views = draw(st.lists(st.sampled_from(['items', 'items', 'keys', 'get']), min_size=1, max_size=8))
    return {'kind': kind, 'ops': ops, 'keyfam': keyfam, 'views': views}


def strata(tier):
    return [(k, cases(k)) for k in KINDS]


def run_case(case):
    root = tempfile.mkdtemp(prefix='c08_', dir=_tmproot())
    cwd = os.getcwd()
    try:
        return _run(case, root)
    finally:
        os.chdir(cwd)
        shutil.rmtree(root, ignore_errors=True)


def _run(case, root):
    kind = case['kind']
    classes = ['kind:' + kind]
    out = []
    # dir_archive(serialized=False) reads entries back with 'from K_<key> import memo': keys must be identifier-safe
    KEYS = ['a', 'b', 'c', 'OK_1', 'k_2'] if kind == 'dir_src' else globals()['KEYS']
    if case.get('keyfam') == 'int':
        KEYS = [3, 12, -7, 0, 2 ** 40]
        classes.append('int_keys')
    # registry of archives: list of (real archive object, model dict or None for null, kind)
    reg = []

    def new_archive(k):
        name = 'R%d' % len(reg)
        a = A.open_archive(k, root, name, cached=False)
        reg.append([a, None if k == 'null' else {}, k])
        return len(reg) - 1

    try:
        c = A.open_archive(kind, root, 'R0', cached=True)
    except Exception as e:
        return [Discrepancy('C08/%s/open/%s' % (kind, exc_sig(e)), repr(e))], None, classes
    reg.append([c.archive, None if kind == 'null' else {}, kind])
    M = {}
    cur = 0 if kind != 'null' else None      # index of the attached (on) archive; None = null
    parked = None                            # index of the parked archive while off
    sandwich = 0        # 0 none, 1 = switched off, 2 = mutated while off
    flags = {'conflict_sync': 0, 'sandwich': 0, 'off_noop': 0, 'keyed_absent': 0}
    kinds = []

    def amodel(i):
        return reg[i][1] if i is not None else None

    def conflicts():
        am = amodel(cur)
        return bool(am) and any(k in M and M[k] != am[k] for k in am)

    def attempt(fn):
        try:
            return ('ok', fn())
        except ValueError as e:
            return ('ValueError', e)
        except KeyError as e:
            return ('KeyError', e)
        except Exception as e:
            return ('exc', e)

    for step, op in enumerate(case['ops']):
        k = op[0]
        kinds.append(k)
        expect = 'ok'
        am = amodel(cur)
        if k == 'cset':
            r = attempt(lambda: c.__setitem__(KEYS[op[1]], op[2]))
            M[KEYS[op[1]]] = op[2]
        elif k == 'cdel':
            expect = 'ok' if KEYS[op[1]] in M else 'KeyError'
            r = attempt(lambda: c.__delitem__(KEYS[op[1]]))
            M.pop(KEYS[op[1]], None)
        elif k == 'cpop':
            r = attempt(lambda: c.pop(KEYS[op[1]], None))
            M.pop(KEYS[op[1]], None)
        elif k == 'cupdate':
            r = attempt(lambda: c.update(dict((KEYS[i], v) for i, v in op[1])))
            M.update(dict((KEYS[i], v) for i, v in op[1]))
        elif k == 'cclear':
            r = attempt(lambda: c.clear())
            M.clear()
        elif k in ('aset', 'adel', 'aclear'):
            i = op[-1] % len(reg)
            a, m, _ = reg[i]
            if k == 'aset':
                r = attempt(lambda: a.__setitem__(KEYS[op[1]], op[2]))
                if m is not None:
                    m[KEYS[op[1]]] = op[2]
            elif k == 'adel':
                r = attempt(lambda: a.pop(KEYS[op[1]], None))
                if m is not None:
                    m.pop(KEYS[op[1]], None)
            else:
                r = attempt(lambda: a.clear())
                if m is not None:
                    m.clear()
            if sandwich == 1 and i == parked:
                sandwich = 2
        elif k == 'dump':
            if conflicts():
                flags['conflict_sync'] += 1
            if cur is None:
                flags['off_noop'] += 1
            r = attempt(lambda: c.dump())
            if am is not None:
                am.update(M)
        elif k == 'dumpk':
            ks = [KEYS[i] for i in op[1]]
            if any(x not in M for x in ks):
                flags['keyed_absent'] += 1
            if conflicts():
                flags['conflict_sync'] += 1
            r = attempt(lambda: c.dump(*ks))
            if am is not None:
                for x in ks:
                    if x in M:
                        am[x] = M[x]
        elif k == 'load':
            if conflicts():
                flags['conflict_sync'] += 1
            if cur is None:
                flags['off_noop'] += 1
            r = attempt(lambda: c.load())
            if am is not None:
                M.update(am)
        elif k == 'loadk':
            ks = [KEYS[i] for i in op[1]]
            if am is not None and any(x not in am for x in ks):
                flags['keyed_absent'] += 1
            if conflicts():
                flags['conflict_sync'] += 1
            r = attempt(lambda: c.load(*ks))
            if am is not None:
                for x in ks:
                    if x in am:
                        M[x] = am[x]
        elif k == 'sync':
            if conflicts():
                flags['conflict_sync'] += 1
            r = attempt(lambda: c.sync())
            if am is not None:
                am.update(M)          # archive overlaid by the cache
                M.update(am)
        elif k == 'syncclear':
            if conflicts():
                flags['conflict_sync'] += 1
            r = attempt(lambda: c.sync(clear=True))
            if am is not None:
                am.clear()
                am.update(M)
        elif k == 'off':
            r = attempt(lambda: c.archived(False))
            if cur is not None:
                parked, cur = cur, None
                sandwich = 1
        elif k == 'on':
            if cur is None and parked is None:
                expect = 'ValueError'        # "no valid archive has been set"
            r = attempt(lambda: c.archived(True))
            if parked is not None:
                cur, parked = parked, None
                if sandwich == 2:
                    flags['sandwich'] += 1
                sandwich = 0
        elif k == 'query':
            r = attempt(lambda: c.archived())
            if r[0] == 'ok' and r[1] is not (cur is not None):
                out.append(Discrepancy('C08/%s/archived()/wrong-flag' % kind, 'step %d: archived() = %r, model on=%r' % (step, r[1], cur is not None)))
                break
        elif k in ('open', 'assign'):
            try:
                i = new_archive(op[1])
            except Exception as e:
                out.append(Discrepancy('C08/%s/new-archive/%s' % (kind, exc_sig(e)), repr(e)))
                break
            a = reg[i][0]
            if k == 'open':
                r = attempt(lambda: c.open(a))
            else:
                r = attempt(lambda: setattr(c, 'archive', a))
            # the new archive replaces whatever was attached or parked, and archiving is on (unless it is a null archive)
            parked = None
            cur = None if op[1] == 'null' else i
            sandwich = 0
        elif k == 'drop':
            if cur is None and parked is None:
                expect = 'ValueError'
            r = attempt(lambda: c.drop())
            if expect == 'ok':
                cur, parked = None, None
                sandwich = 0
        else:
            raise ValueError(k)
        if r[0] != expect:
            what = ('raised/%s' % exc_sig(r[1])) if r[0] != 'ok' else 'no-' + expect
            out.append(Discrepancy('C08/%s/%s/%s' % (kind, k, what), 'step %d %r: got %r, expected %s' % (step, op, r, expect)))
            break
        # ---- full-state comparison
        d = None
        got = dict(c)
        if not A.exact(got, M):
            d = Discrepancy('C08/%s/%s/cache-differs' % (kind, k), 'step %d %r: cache %s, model %s' % (step, op, A.describe(got), A.describe(M)))
        if d is None:
            view = (case.get('views') or ['items'])[step % len(case.get('views') or ['items'])]
            classes.append('view:' + view)
            for i, (a, m, ak) in enumerate(reg):
                obs = A.observe(a, view, KEYS)
                if obs[0] != 'ok':
                    d = Discrepancy('C08/%s/%s/archive-unreadable/%s' % (kind, k, obs[1]), 'step %d %r: archive %d (%s), view %s: %s' % (step, op, i, ak, view, obs[2]))
                    break
                ac = obs[1]
                want = {} if m is None else m
                if view == 'keys':
                    want = dict((kk, None) for kk in want)
                if not A.exact(ac, want):
                    role = 'attached' if i == cur else ('parked' if i == parked else 'detached')
                    d = Discrepancy('C08/%s/%s/%s-archive-differs%s' % (kind, k, role, '/null-not-empty' if m is None else ''),
                                    'step %d %r: archive %d (%s, %s) holds %s, model %s' % (step, op, i, ak, role, A.describe(ac), A.describe(want)))
                    break
        if d is None:
            try:
                flag = c.archived()
                cura = c.archive
            except Exception as e:
                d = Discrepancy('C08/%s/%s/archived-raised/%s' % (kind, k, exc_sig(e)), repr(e))
            else:
                if flag is not (cur is not None):
                    d = Discrepancy('C08/%s/%s/archived-flag-wrong' % (kind, k), 'step %d %r: archived() %r, model %r' % (step, op, flag, cur is not None))
                elif cur is not None and cura is not reg[cur][0]:
                    d = Discrepancy('C08/%s/%s/wrong-archive-attached' % (kind, k), 'step %d %r: cache.archive is %r, expected archive %d' % (step, op, cura, cur))
        if d is not None:
            out.append(d)
            break
    for a, m, ak in reg:
        conn = getattr(a, '_conn', None)
        if conn is not None:
            try:
                conn.close()
            except Exception:
                pass
    for f, v in flags.items():
        if v:
            classes.append(f)
    for kd in set(kinds):
        classes.append('op:' + kd)
    nt = (kind, kinds) if (flags['conflict_sync'] or flags['sandwich']) else None
    return out, nt, classes


REQUIRED_CLASSES = ['view:keys', 'view:get', 'int_keys', 'conflict_sync', 'sandwich', 'off_noop', 'keyed_absent'] + ['kind:' + k for k in KINDS] + ['op:' + o for o in set(OPS)]
TRIGGERS = {}
