"""C16 exceptions pass through untouched; safe caches degrade to plain evaluation."""
from hypothesis import strategies as st
from harness import cachehist as H, cachegen as G, values as V
from harness.core import Discrepancy
from props._cc import has, base_classes, same, outcome

PROP = 'C16'
LEVEL = 'exploration'
RULE = ("(a) stratified cases over all 12 decorators x purge x backend family; the generated function raises a pre-built exception instance "
        "(KeyError/TypeError/ValueError/IndexError/RuntimeError/AttributeError) for a drawn subset of the argument pool. Oracle: the caller "
        "catches the same object after exactly one evaluation; resident set, archive and info() are unchanged by the raising call; and a TWIN "
        "decorated function fed the same history minus the raising calls is indistinguishable at every later step (results, residents, archive, "
        "info, eviction victims; RR with identical random seeds). (b) safe decorators x every keymap (incl. raw non-flat) x with/without archive x "
        "hostile arguments (list/dict/set, generator, lambda, writable memoryview, objects whose __hash__/__repr__/__reduce__ raise TypeError, ValueError, RuntimeError or KeyError) mixed with ordinary calls: "
        "every call returns the function's value, nothing propagates, at most one evaluation. non-trivial = (a) a raising call followed by an "
        "overflow, (b) a hostile argument followed by an overflow or with an archive attached; distinct = (class, backend, keymap, outcome sequence)")
ASSUMPTIONS = ['twin equivalence is observed through public state only (no peeking at the queue)',
               'hostile objects get a fresh instance per call']

N = {'quick': 900, 'thorough': 4000}
SHARDS = {'quick': 4, 'thorough': 16}


# ------------------------------------------------------------------ (a)

def strata(tier):
    a = G.strata_grid(
        maxsizes=(2, 1, 3, None, 0),
        weights={'call': 16, 'burst': 1, 'load': 1, 'dump': 1, 'clear': 1, 'clearkeep': 1, 'arch_off': 0, 'arch_on': 0,
                 'dumpk': 0, 'loadk': 0, 'awrite': 1},
        max_ops=30 if tier == 'quick' else 60, pool=(4, 8), raising_pct=30, extra={'part': 'a'})
    b = [('hostile/' + n, s) for n, s in hostile_strata(tier)]
    return a + b


def check_raising(case, tr):
    out = []
    flags = {'raise': 0, 'raise_then_overflow': 0, 'ev': []}
    if tr.setup_exc is not None:
        out.append(Discrepancy('C16/decorate/%s' % H.exc_sig(tr.setup_exc), repr(tr.setup_exc)))
        return out, flags, None
    algo = H.effective_algo(case)
    raised_before = False
    keep = []
    ops = H.expand_ops(case['ops'])
    for i, s in enumerate(tr.steps):
        if s.kind != 'call':
            if s.exc is not None and not (s.kind in ('arch_on', 'arch_off') and isinstance(s.exc, ValueError)):
                out.append(Discrepancy('C16/%s/raised/%s' % (s.kind, H.exc_sig(s.exc)), 'step %d: %r' % (i, s.exc)))
                return out, flags, None
            keep.append(i)
            continue
        if s.expected_exc is not None:
            flags['raise'] += 1
            raised_before = True
            if s.exc is None:
                out.append(Discrepancy('C16/%s/exception-swallowed' % algo, 'step %d: function raises %r but the call returned %r' % (i, s.expected_exc, s.result)))
                return out, flags, None
            if s.exc is not s.expected_exc:
                out.append(Discrepancy('C16/%s/different-exception' % algo, 'step %d: function raised %r, caller got %r' % (i, s.expected_exc, s.exc)))
                return out, flags, None
            if s.exc.__cause__ is not getattr(s.exc, '_vcause', None) or s.exc.__suppress_context__ != (getattr(s.exc, '_vcause', None) is not None):
                out.append(Discrepancy('C16/%s/exception-cause-changed' % algo, 'step %d: the function raised %r with __cause__ %r; the caller received it with __cause__ %r, __suppress_context__ %r' % (
                    i, s.exc, getattr(s.exc, '_vcause', None), s.exc.__cause__, s.exc.__suppress_context__)))
                return out, flags, None
            if getattr(s.exc, '_vcause', None) is not None:
                flags['raise_with_cause'] = flags.get('raise_with_cause', 0) + 1
            if s.evals != 1:
                out.append(Discrepancy('C16/%s/raising-call-evaluated-%d-times' % (algo, s.evals), 'step %d' % i))
                return out, flags, None
            if not _same_state(s.pre_mem, s.post_mem) or not _same_state(s.pre_arch, s.post_arch) or s.pre_info != s.post_info:
                out.append(Discrepancy('C16/%s/raising-call-changed-state' % algo, 'step %d: mem %r -> %r, arch %r -> %r, info %r -> %r' % (
                    i, s.pre_mem, s.post_mem, s.pre_arch, s.post_arch, s.pre_info, s.post_info)))
                return out, flags, None
            flags['ev'].append('x')
            continue
        if s.exc is not None:
            out.append(Discrepancy('C16/call/raised/%s' % H.exc_sig(s.exc), 'step %d: %r' % (i, s.exc)))
            return out, flags, None
        keep.append(i)
        overflow = not has(s.pre_mem, s.key) and len(s.post_mem) <= len(s.pre_mem)
        if raised_before and overflow:
            flags['raise_then_overflow'] += 1
        flags['ev'].append(outcome(s, algo)[0] + ('o' if overflow else ''))
    return out, flags, keep


def _same_state(a, b):
    if a is None or b is None:
        return a is b
    if len(a) != len(b):
        return False
    for k, v in a.items():
        if not has(b, k) or not same(b[k], v):
            return False
    return True


def check_twin(case, tr, keep):
    """twin run without the raising calls must be indistinguishable"""
    out = []
    ops = H.expand_ops(case['ops'])
    twin_ops = [ops[i] for i in keep]
    tw = H.run_history(case, ops=twin_ops)
    if tw.setup_exc is not None or len(tw.steps) != len(keep):
        out.append(Discrepancy('C16/twin-harness', 'twin run did not complete'))
        return out
    algo = H.effective_algo(case)
    for j, i in enumerate(keep):
        s, t = tr.steps[i], tw.steps[j]
        if (s.exc is None) != (t.exc is None):
            out.append(Discrepancy('C16/%s/twin-diverges/exception' % algo, 'step %d: %r vs twin %r' % (i, s.exc, t.exc)))
            return out
        if s.kind == 'call' and not same(s.result, t.result):
            out.append(Discrepancy('C16/%s/twin-diverges/result' % algo, 'step %d: %r vs twin %r' % (i, s.result, t.result)))
            return out
        if not _same_state(s.post_mem, t.post_mem):
            out.append(Discrepancy('C16/%s/twin-diverges/residents' % algo, 'step %d %r: residents %r, twin (history without the raising calls) %r' % (
                i, s.op, sorted(map(repr, s.post_mem)), sorted(map(repr, t.post_mem)))))
            return out
        if not _same_state(s.post_arch, t.post_arch):
            out.append(Discrepancy('C16/%s/twin-diverges/archive' % algo, 'step %d %r' % (i, s.op)))
            return out
        if s.post_info != t.post_info:
            out.append(Discrepancy('C16/%s/twin-diverges/info' % algo, 'step %d %r: %r vs twin %r' % (i, s.op, s.post_info, t.post_info)))
            return out
    return out


# ------------------------------------------------------------------ (b)

@st.composite
def hostile_cases(draw, algo, family, tier):
    backends = G.FAMILIES[family]
    if family == 'direct':
        # a directory archive used as the cache takes unhashable keys as they are (named by their text): nothing degrades there, and such keys
        # cannot be observed through a dict snapshot
        backends = tuple(b for b in backends if b != 'direct_dir_dill')
    backend = draw(st.sampled_from(backends))
    key_req = H.backend_key_req(backend)
    sig = draw(st.sampled_from([{'req': ['x']}, {'req': ['x'], 'opt': [['y', ['i', 1]]]}, {'req': ['x'], 'varargs': True, 'varkw': True}]))
    kms = G.keymap_specs_for(key_req, 'safe', bool(sig.get('varargs')), info_preserving_only=False, unhashable_ok=True)
    if family == 'persist':
        # raw keys would have to be encoded by the *archive*; the statement promises degradation only for keys the
        # keymap cannot encode or that are unhashable
        kms = [k for k in kms if k['cls'] != 'keymap']
    raw = [k for k in kms if k['cls'] == 'keymap']
    alts = [st.sampled_from(kms)]
    if raw:
        alts += [st.sampled_from(raw)] * 2      # raw keys are the ones that turn out unhashable
    if key_req == 'hashable':
        alts.append(st.none())
    keymap = draw(st.one_of(*alts))
    normal = st.one_of(V.ints(), V.ints(), st.sampled_from([['s', 'a'], ['s', 'b'], ['n'], ['f', '0.5']]))
    # open finding D22: under a RAW keymap an argument whose __hash__ raises KeyError (not TypeError) is taken for a cache miss and the
    # KeyError escapes from the safe wrapper; that combination is probed separately and left out of the main pass
    hk = [k for k in V.HOSTILE_KINDS if not (k == 'badhashkey' and (keymap is None or keymap['cls'] == 'keymap'))]
    host = st.one_of(st.sampled_from(hk).map(lambda k: ['H', k]),
                     st.sampled_from([['l', [['i', 1]]], ['d', [[['s', 'a'], ['i', 1]]]], ['S', [['i', 1], ['i', 2]]], ['l', []],
                                      ['t', [['l', [['i', 2]]]]], ['t', [['H', 'badhash']]], ['t', [['H', 'badhashrt']]], ['t', [['i', 1], ['H', 'memview']]]]))
    if family == 'direct' and keymap is not None and keymap['cls'] == 'keymap':
        # the archive itself is the cache and receives the RAW key: what is promised is degradation for UNHASHABLE arguments; a hashable argument
        # the archive's codec cannot write (a generator inside a pickled key) is the archive's business, not the keymap's
        host = st.sampled_from([['l', [['i', 1]]], ['d', [[['s', 'a'], ['i', 1]]]], ['S', [['i', 1], ['i', 2]]], ['l', []], ['t', [['l', [['i', 2]]]]],
                                ['H', 'badhash'], ['H', 'badhashrt'], ['t', [['H', 'badhash']]]])
    npool = draw(st.integers(5, 8))
    pool = []
    for j in range(npool):
        v = draw(host if draw(st.integers(0, 9)) < 3 else normal)
        b = {'named': [['x', v]]}
        if sig.get('opt') and draw(st.booleans()):
            b['named'].append(['y', draw(normal)])
        if sig.get('varargs') and draw(st.integers(0, 2)) == 0:
            b['xpos'] = [draw(st.one_of(host, normal))]
        if sig.get('varkw') and draw(st.integers(0, 2)) == 0:
            b['xkw'] = [['k', draw(st.one_of(host, normal))]]
        if b not in pool:
            pool.append(b)
    w = dict(G.DEFAULT_WEIGHTS)
    w.update({'call': 16, 'dump': 1, 'load': 1, 'clear': 1, 'clearkeep': 0, 'arch_off': 0, 'arch_on': 0, 'dumpk': 0, 'loadk': 0})
    ops = draw(G.op_lists(w, len(pool), 2, 25 if tier == 'quick' else 50))
    # epilogue: after each hostile call, sweep the ordinary calls (fills the cache and overflows it right after
    # the degraded call, where stale bookkeeping for the hostile key would be used)
    hidx = [j for j, b in enumerate(pool) if _is_hostile(b['named'][0][1])]
    nidx = [j for j in range(len(pool)) if j not in hidx]
    rot = draw(st.integers(0, max(0, len(nidx) - 1)))
    for h in hidx[:3]:
        ops += [['call', j, 0, 0] for j in (nidx[rot:] + nidx[:rot])[:3]] + [['call', h, 0, 0]] + [['call', j, 0, 0] for j in (nidx[rot:] + nidx[:rot])[::-1]]
    return {'part': 'b', 'module': 'safe', 'algo': algo, 'maxsize': draw(st.sampled_from([2, 1, 3, None, 0])), 'ms_pos': False,
            'purge': draw(st.booleans()), 'keymap': keymap, 'backend': backend, 'sig': sig, 'rmode': 'str', 'pool': pool, 'ops': ops}


def hostile_strata(tier):
    out = []
    for a in H.ALGOS:
        for fam in ('noarch', 'memarch', 'persist', 'noarch', 'memarch', 'direct'):      # 'direct': the archive itself is the cache (cached=False)
            out.append(('%s/%s/%d' % (a, fam, len(out)), hostile_cases(a, fam, tier)))
    return out


def _is_hostile(spec):
    if spec[0] == 'H' or spec[0] in 'ldS':
        return True
    if spec[0] in 'tF':
        return any(_is_hostile(x) for x in spec[1])
    return False


def sr(x):
    """repr that survives arguments whose own __repr__ raises"""
    try:
        return repr(x)
    except BaseException:
        if isinstance(x, (tuple, list)):
            return '(' + ', '.join(sr(e) for e in x) + ')'
        if isinstance(x, dict):
            return '{' + ', '.join('%s: %s' % (sr(k), sr(v)) for k, v in x.items()) + '}'
        return '<%s: repr raises>' % type(x).__name__


def check_hostile(case, tr):
    out = []
    flags = {'hostile_call': 0, 'hostile_then_overflow': 0, 'hostile_archived': 0, 'degraded': 0, 'ev': []}
    if tr.setup_exc is not None:
        out.append(Discrepancy('C16/decorate/%s' % H.exc_sig(tr.setup_exc), repr(tr.setup_exc)))
        return out, flags
    algo = H.effective_algo(case)
    seen_hostile = False
    for i, s in enumerate(tr.steps):
        if s.kind != 'call':
            if s.exc is not None:
                out.append(Discrepancy('C16/safe/%s/raised/%s' % (s.kind, H.exc_sig(s.exc)), 'step %d: %r' % (i, s.exc)))
                return out, flags
            continue
        b = case['pool'][s.op[1] % len(case['pool'])]
        hostile = any(_is_hostile(v) for _, v in b.get('named', [])) or any(_is_hostile(v) for v in b.get('xpos', [])) or \
            any(_is_hostile(v) for _, v in b.get('xkw', []))
        if s.exc is not None:
            out.append(Discrepancy('C16/safe/%s/call-raised/%s' % (algo, H.exc_sig(s.exc)),
                                   'step %d: safe cache raised %s for arguments %s %s (hostile=%s)' % (i, sr(s.exc), sr(s.args), sr(s.kwds), hostile)))
            return out, flags
        if not same(s.result, s.expected):
            out.append(Discrepancy('C16/safe/%s/wrong-result' % algo, 'step %d: %s vs %s' % (i, sr(s.result), sr(s.expected))))
            return out, flags
        if s.evals > 1:
            out.append(Discrepancy('C16/safe/%s/evaluated-%d-times' % (algo, s.evals), 'step %d' % i))
            return out, flags
        usable = s.key_exc is None
        if usable:
            try:
                hash(s.key)
            except BaseException:
                usable = False
        if not usable:
            flags['degraded'] += 1
            if s.evals != 1:
                out.append(Discrepancy('C16/safe/%s/degraded-call-not-evaluated-once' % algo, 'step %d: %d evaluations' % (i, s.evals)))
                return out, flags
        if hostile:
            flags['hostile_call'] += 1
            seen_hostile = True
            if s.pre_arch is not None:
                flags['hostile_archived'] += 1
        overflow = usable and not has(s.pre_mem, s.key) and len(s.post_mem) <= len(s.pre_mem)
        if seen_hostile and overflow and not hostile:
            flags['hostile_then_overflow'] += 1
        flags['ev'].append(('H' if hostile else 'n') + ('d' if not usable else '') + ('o' if overflow else ''))
    return out, flags


# ------------------------------------------------------------------

def run_case(case):
    tr = H.run_history(case)
    classes = base_classes(case) + ['part:' + case.get('part', 'a')]
    nt = None
    if case.get('part') == 'b':
        discrs, flags = check_hostile(case, tr)
        classes += [k for k in ('hostile_call', 'hostile_then_overflow', 'hostile_archived', 'degraded') if flags[k]]
        if flags['hostile_then_overflow'] or flags['hostile_archived']:
            km = case.get('keymap')
            nt = ('b', case['algo'], case['backend'], km and (km['cls'], km['flat']), flags['ev'])
        return discrs, nt, sorted(set(classes))
    discrs, flags, keep = check_raising(case, tr)
    if not discrs and flags['raise']:
        discrs = check_twin(case, tr, keep)
    classes += [k for k in ('raise', 'raise_then_overflow', 'raise_with_cause') if flags.get(k)]
    if flags['raise_then_overflow']:
        nt = ('a', case['module'], case['algo'], case['purge'], case['backend'], flags['ev'])
    return discrs, nt, sorted(set(classes))


REQUIRED_CLASSES = ['raise_with_cause', 'raise', 'raise_then_overflow', 'hostile_call', 'hostile_then_overflow', 'hostile_archived', 'degraded', 'part:a', 'part:b']


def _t_hash_keyerror(case, discr):
    def has(spec):
        return spec[0] == 'H' and spec[1] == 'badhashkey' or (spec[0] in 'tlSF' and any(has(x) for x in spec[1]))
    km = case.get('keymap')
    raw = km is not None and km.get('cls') == 'keymap'
    return raw and case.get('module') == 'safe' and any(has(v) for b in case['pool'] for _, v in b.get('named', []) + b.get('xkw', [])) or \
        (raw and any(has(v) for b in case['pool'] for v in b.get('xpos', [])))


TRIGGERS = {'raw_keymap_hash_keyerror': _t_hash_keyerror}
