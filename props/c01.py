"""C01 memoization transparency: a cached call returns what the function returns."""
from harness import cachehist as H, cachegen as G
from harness.core import Discrepancy
from props._cc import has, base_classes, same, outcome

PROP = 'C01'
LEVEL = 'exploration'
RULE = ("stratified cases = 12 decorator classes x purge x 4 backend families (18 backends) x information-preserving keymaps (raw/string/pickle/"
        "md5/sha1 hash, flat or not, typed or not, sentinel) + the decorator defaults x generated signature (defaults, *args, **kw) x pool of "
        "argument tuples (ints, floats, strs from a hostile alphabet, bytes, None, bools, tuples, equal-but-differently-typed twins) x history of "
        "[plus: purely variadic functions with one-argument look-alike calls 1 / '1'; TWO different functions of the same arguments, each with its own archive of the same kind, stepped alternately without the harness reading caches or archives in between] "
        "calls in several spellings interleaved with dump/load (keyed or not)/clear/toggles/direct archive writes/re-decoration/re-open. "
        "Oracle: result == undecorated reference function on the same arguments, type-exact; no exception the function does not raise. "
        "non-trivial = a call answered from the archive (LOAD) or from memory after another key was evicted/purged; "
        "distinct = (class, keymap kind, backend, outcome sequence, spelling sequence)")
ASSUMPTIONS = ['generated functions are deterministic and equality-respecting (f(1) == f(1.0) == f(True)) because untyped raw keys legitimately merge them',
               'value domain per codec is its type-exact round-trip domain (json/sqlite/source codecs: scalars only)',
               'exclusions by construction are listed under excluded_by_construction']
EXCLUDED = dict(G.EXCLUSIONS)

N = {'quick': 700, 'thorough': 5000}
SHARDS = {'quick': 4, 'thorough': 16}


def _sibling_scenario(case):
    # the two sibling calls (differing in one confusable character) are the last two pool entries: compute one, push it out to the
    # archive, then ask for the other - a lossy key -> storage-name mapping answers it with the first one's result
    if case.get('confusable_pair'):
        n = len(case['pool'])
        case = dict(case, ops=[['call', n - 2, 0, 0], ['dump'], ['clear'], ['call', n - 1, 0, 0], ['call', n - 2, 1, 0]] + list(case['ops']))
    return case


def _lookalike_scenario(case):
    # purely variadic function, two one-argument calls whose arguments print alike (1 / '1'): compute one, then ask for the other
    if case.get('lookalike_pair'):
        i, j = case['lookalike_pair']
        case = dict(case, ops=[['call', i, 0, 0], ['call', j, 0, 0], ['call', i, 0, 0]] + list(case['ops']))
    return case


def _pair(case):
    # constructed opening: both compute entry 0, dump, clear, somebody lists the stored keys (no values read), both ask for entry 0 again
    pre = [['call', 0, 0, 0], ['dump'], ['clear'], ['akeys'], ['call', 0, 0, 0]] if H.backend_archived(case['backend']) else []
    return dict(case, pair=True, ops=pre + list(case['ops']))


def strata(tier):
    # two different functions of the same arguments, each memoized in its OWN archive of the same kind (another directory / file / table): neither may be
    # answered with the other's results, whatever process-wide state the back end keeps
    pairs = G.strata_grid(modules=('std', 'safe'), algos=('lru', 'rr', 'inf', 'no'), purges=(False, True), families=('memarch', 'persist', 'direct'), maxsizes=(2, 1, None),
                          weights={'call': 12, 'dump': 2, 'clear': 2, 'load': 1, 'akeys': 3, 'loadk': 1, 'dumpk': 1}, max_ops=14, pool=(2, 4))
    # the source-text back ends read entries back by IMPORTING them (module cache, sys.path, bytecode): their own strata
    src = G.strata_grid(modules=('std', 'safe'), algos=('lru', 'inf'), purges=(False,), families=('persist',), backends=('cache_dir_src', 'cache_file_src'), maxsizes=(2, None),
                        weights={'call': 12, 'dump': 2, 'clear': 2, 'load': 1, 'akeys': 3}, max_ops=10, pool=(2, 4), default_keymap_pct=60)
    return [('two-functions/' + n, s.map(_pair)) for n, s in pairs] + [('two-functions-src/' + n, s.map(_pair)) for n, s in src] + _strata_look(tier)


def _strata_look(tier):
    look = G.strata_grid(modules=('std', 'safe'), algos=('lru', 'inf', 'no'), purges=(False,), families=('noarch', 'memarch', 'persist'), maxsizes=(2, None),
                         shapes=[{'varargs': True}, {'varargs': True, 'varkw': True}], weights={'call': 10, 'dump': 2, 'clear': 1, 'load': 1}, max_ops=10, pool=(2, 4))
    # typed raw keys: equal-but-differently-typed values swapped between two parameters, called in different call forms
    twins = G.strata_grid(modules=('std', 'safe'), algos=('lru', 'inf'), purges=(False,), families=('noarch', 'memarch'), maxsizes=(3, None),
                          shapes=[{'req': ['x', 'y']}, {'req': ['x'], 'opt': [['y', ['i', 1]]]}, {'req': ['x'], 'kwopt': [['s', ['i', 2]]]}],
                          weights={'call': 10, 'dump': 1, 'clear': 1, 'load': 1}, max_ops=8, pool=(2, 4), default_keymap_pct=0,
                          kms_filter=lambda k: k['cls'] == 'keymap' and k['typed'] and k['flat'], twin_pct=100)
    return [('lookalikes/' + n, s.map(_lookalike_scenario)) for n, s in look] + [('twins/' + n, s.map(_twin_scenario)) for n, s in twins] + _strata_sib(tier)


def _strata_sib(tier):
    # string-keyed persistent archives with sibling argument pairs (x:y / x|y / x y ...)
    sib = G.strata_grid(modules=('std', 'safe'), algos=('lru', 'inf'), purges=(False,), families=('persist', 'direct'), maxsizes=(2, None),
                        weights={'call': 10, 'dump': 2, 'clear': 2, 'load': 1}, max_ops=12, pool=(2, 4), confusable_pct=100)
    return [('siblings/' + n, s.map(_sibling_scenario), 3) for n, s in sib] + _strata(tier)


def _twin_scenario(case):
    # two calls with equal-but-differently-typed values swapped between two parameters (x=1, y=1.0 / x=1.0, y=1), made in DIFFERENT call forms
    # (positional / keyword, other keyword order): under a typed keymap they are different calls and must not answer each other
    if case.get('twin_pair'):
        i, j = case['twin_pair']
        case = dict(case, ops=[['call', i, 2, 0], ['call', j, 5, 0], ['call', i, 0, 0], ['call', j, 1, 0], ['call', i, 5, 0], ['call', j, 2, 0]] + list(case['ops']))
    return case


def _strata(tier):
    return [(n, s.map(_twin_scenario)) for n, s in _strata_main(tier)]


def _strata_main(tier):
    return G.strata_grid(
        maxsizes=(2, 1, 3, 5, None, 0),
        weights={'call': 16, 'burst': 1, 'load': 2, 'dump': 2, 'dumpk': 1, 'loadk': 1, 'clear': 1, 'clearkeep': 1,
                 'arch_off': 1, 'arch_on': 1, 'awrite': 1, 'redecorate': 1, 'dumpreopen': 1},
        max_ops=30 if tier == 'quick' else 60, pool=(3, 8), attach_later_pct=12, prefill_pct=10, rich_args=True)


def check_trace(case, tr):
    out, ev = [], []
    flags = {'load': 0, 'hit_after_eviction': 0, 'second_spelling_hit': 0}
    if tr.setup_exc is not None:
        out.append(Discrepancy('C01/decorate/%s' % H.exc_sig(tr.setup_exc), repr(tr.setup_exc)))
        return out, ev, flags
    algo = H.effective_algo(case)
    evicted_any = False
    spell_seen = {}
    for i, s in enumerate(tr.steps):
        if s.kind != 'call':
            if s.exc is not None and not (s.kind in ('arch_on', 'arch_off') and isinstance(s.exc, ValueError)):
                out.append(Discrepancy('C01/%s/raised/%s' % (s.kind, H.exc_sig(s.exc)), 'step %d %r: %r' % (i, s.op, s.exc)))
                return out, ev, flags
            ev.append(s.kind[:3])
            continue
        if s.exc is not None:
            out.append(Discrepancy('C01/call/raised/%s' % H.exc_sig(s.exc), 'step %d: f%r %r raised %r' % (i, s.args, s.kwds, s.exc)))
            return out, ev, flags
        oc = outcome(s, algo)
        if not same(s.result, s.expected):
            out.append(Discrepancy('C01/%s/wrong-result-on-%s' % (algo, oc),
                                   'step %d: f(*%r, **%r) returned %r, the function returns %r (key %r)' % (i, s.args, s.kwds, s.result, s.expected, s.key)))
            return out, ev, flags
        if len(s.post_mem) < len(s.pre_mem) + (0 if has(s.pre_mem, s.key) else 1):
            evicted_any = True
        if oc == 'load':
            flags['load'] += 1
        if oc == 'hit' and evicted_any:
            flags['hit_after_eviction'] += 1
        form = (len(s.args), tuple(s.kwds))
        kr = repr(s.key)
        if oc in ('hit', 'load') and kr in spell_seen and form not in spell_seen[kr]:
            flags['second_spelling_hit'] += 1
        spell_seen.setdefault(kr, set()).add(form)
        ev.append(oc[0] + str(len(s.args)))
    return out, ev, flags


def run_pair(case):
    import os
    classes = base_classes(case) + ['two_functions']
    out = []
    flags_all = {'load': 0, 'hit_after_eviction': 0}
    evs = []
    cwd0 = os.getcwd()
    with H.Scratch() as sc:
        try:
            sess = []
            for tag, salt in (('A', ''), ('B', 'other function')):
                root = os.path.join(sc.path, tag)
                os.makedirs(root)
                fn = H.Fn(case['sig'], case.get('rmode', 'str'), None, typed_top=bool(case.get('keymap') and case['keymap'].get('typed')), salt=salt)
                try:
                    sess.append(H.Session(case, root, fn=fn))
                except Exception as e:
                    return [Discrepancy('C01/decorate/%s' % H.exc_sig(e), repr(e))], None, classes
            traces = [H.Trace(case), H.Trace(case)]
            # the harness does NOT look into caches or archives between steps here (observe=False): reading an archive is itself an operation
            # that may refresh or disturb process-wide state, and would hide interference between the two functions
            bad = None
            for i, op in enumerate(H.expand_ops(case['ops'])):
                for j in ((0, 1) if i % 2 == 0 else (1, 0)):       # who goes first alternates
                    s = H.apply_op(sess[j], op, traces[j], observe=False)
                    if s.exc is not None and not (s.kind in ('arch_on', 'arch_off') and isinstance(s.exc, ValueError)):
                        bad = Discrepancy('C01/two-functions/%s/raised/%s' % (s.kind, H.exc_sig(s.exc)), 'step %d %r of function %s: %r' % (i, op, 'AB'[j], s.exc))
                    elif s.kind == 'call' and not same(s.result, s.expected):
                        bad = Discrepancy('C01/two-functions/%s/wrong-result' % H.effective_algo(case),
                                          'step %d: function %s called with (*%r, **%r) returned %r, it returns %r (the other function returns %r)' % (
                                              i, 'AB'[j], s.args, s.kwds, s.result, s.expected, sess[1 - j].fn.ref(*s.args, **s.kwds)))
                    if bad is not None:
                        break
                if bad is not None:
                    out.append(bad)
                    break
            for j in (0, 1):
                inf = sess[j].f.info()
                flags_all['load'] += inf.load
                flags_all['hit_after_eviction'] += inf.hit
                evs.append([st_.kind[:3] for st_ in traces[j].steps])
            for x in sess:
                H._close(x.cache)
        finally:
            os.chdir(cwd0)
    classes += ['pair_load'] if flags_all['load'] else []
    nt = None
    if flags_all['load']:
        km = case.get('keymap')
        nt = ('pair', case['module'], case['algo'], km and (km['cls'], km['flat'], km['typed']), case['backend'], evs[0])
    return out[:1], nt, sorted(set(classes))


def run_case(case):
    if case.get('pair'):
        return run_pair(case)
    tr = H.run_history(case)
    discrs, ev, flags = check_trace(case, tr)
    classes = base_classes(case) + [k for k, v in flags.items() if v] + (['lookalike_pair'] if case.get('lookalike_pair') else []) + (['twin_pair'] if case.get('twin_pair') else [])
    nt = None
    if flags['load'] or flags['hit_after_eviction']:
        km = case.get('keymap')
        nt = (case['module'], case['algo'], km and (km['cls'], km['flat'], km['typed']), case['backend'], ev)
    return discrs, nt, sorted(set(classes))


REQUIRED_CLASSES = ['twin_pair', 'two_functions', 'pair_load', 'lookalike_pair', 'load', 'hit_after_eviction', 'second_spelling_hit', 'module:safe', 'eff_algo:no', 'eff_algo:inf', 'eff_algo:mru',
                    'eff_algo:lfu', 'eff_algo:rr', 'keymap:default']
TRIGGERS = {}
