"""C06 eviction follows the advertised policy (LRU / MRU / LFU / RR)."""
import itertools
from harness import cachehist as H, cachegen as G
from harness.core import Discrepancy
from props._cc import has, base_classes

PROP = 'C06'
LEVEL = 'exploration'
RULE = ("cases = bounded decorator (lru/mru/lfu/rr x std/safe) x maxsize{1,2,3,4,12} x backend (no archive, or archive with purge off) "
        "x call-only history (calls, long alternating 'bursts' of hits, clear()). Oracle = independent recency/frequency model kept "
        "from the observed resident sets: a hit removes nothing; on overflow LRU removes exactly argmin(last use), MRU exactly "
        "argmax(last use before the call), LFU only entries whose count since entry <= every kept entry's, RR exactly one; nothing else leaves. "
        "non-trivial = an overflow whose policy victim differs from the FIFO victim (a hit reordered entries), or an overflow after "
        "LRU compaction certainly ran (more than 10*maxsize consecutive calls without eviction earlier in the history); "
        "distinct = (class, maxsize, archive?, sequence of (outcome, victim-rank) per call)")
ASSUMPTIONS = ['bulk load() is excluded: residents without a usage record have no defined policy victim (C05/C07 cover them)',
               'RR: only the validity predicate (one resident entry leaves) is checked, not the distribution']

N = {'quick': 450, 'thorough': 3500}
SHARDS = {'quick': 4, 'thorough': 16}


def strata(tier):
    # warm start (bulk load() of an archive holding more than maxsize entries): the bulk-loaded entries have no usage record, so the
    # policy victim is undefined - but 'a hit never removes anything' still applies, and for RR 'exactly one leaves'
    warm = G.strata_grid(algos=('rr', 'lru', 'mru', 'lfu'), maxsizes=(2, 3, 4), purges=(False,), families=('memarch', 'persist'),
                         backends=('cache_dict', 'cache_dir_dill', 'cache_file_pkl', 'cache_sql_mem'),
                         weights={'call': 12, 'load': 3, 'awrite': 3, 'sweep': 2, 'clear': 1, 'dump': 1},
                         max_ops=30, pool=(5, 10), prefill_pct=60)
    return [('warm/' + n, s) for n, s in warm] + G.strata_grid(
        algos=('lru', 'mru', 'lfu', 'rr'), maxsizes=(2, 1, 3, 4, 12), purges=(False,), families=('noarch', 'memarch', 'persist', 'direct'),
        backends=('none', 'plain', 'cache_dict', 'cache_null', 'direct_dict', 'cache_dir_dill', 'cache_file_pkl', 'cache_sql_mem', 'direct_file_pkl'),
        weights={'call': 14, 'burst': 3, 'clear': 1, 'dump': 0, 'load': 0, 'dumpk': 0, 'loadk': 0, 'clearkeep': 1,
                 'arch_off': 0, 'arch_on': 0},
        max_ops=40 if tier == 'quick' else 80, pool=(3, 8), raising_pct=15)


def check_trace(case, tr):
    out = []
    events = []          # per call: (outcome, victim description) for distinctness / non-triviality
    if tr.setup_exc is not None:
        out.append(Discrepancy('C06/decorate/%s' % H.exc_sig(tr.setup_exc), repr(tr.setup_exc)))
        return out, events, {}
    ms = H.effective_maxsize(case)
    algo = H.effective_algo(case)
    last_use, count, inserted = {}, {}, {}
    warm = any(o[0] in ('load', 'awrite', 'loadk') for o in case['ops'])      # usage record incomplete: only history-free clauses apply
    run_no_evict = 0
    compaction_possible = False
    flags = {'victim_not_fifo': 0, 'overflow_after_compaction': 0, 'overflow': 0, 'hit': 0, 'lfu_multi': 0}
    for i, s in enumerate(tr.steps):
        if s.kind in ('clear', 'clearkeep'):
            last_use.clear(); count.clear(); inserted.clear()
            run_no_evict = 0
            compaction_possible = False
            events.append('clear')
            continue
        if s.kind != 'call':
            continue
        if s.expected_exc is not None and s.exc is s.expected_exc:
            # the function itself raised: the call stores nothing and must not disturb residents or the usage record
            flags['raising_call'] = flags.get('raising_call', 0) + 1
            gone = [k for k in s.pre_mem if not has(s.post_mem, k)]
            if gone or len(s.post_mem) != len(s.pre_mem):
                out.append(Discrepancy('C06/%s/raising-call-changed-residents' % algo, 'step %d: %r -> %r' % (i, list(s.pre_mem), list(s.post_mem))))
                return out, events, flags
            events.append('x')
            continue
        if s.exc is not None:
            out.append(Discrepancy('C06/call/raised/%s' % H.exc_sig(s.exc), 'step %d: %r' % (i, s.exc)))
            return out, events, flags
        key = s.key
        pre, post = s.pre_mem, s.post_mem
        pre_keys, post_keys = list(pre.keys()), list(post.keys())
        removed = [k for k in pre_keys + ([key] if not has(pre, key) else []) if not has(post, k)]
        appeared = [k for k in post_keys if not has(pre, k) and k != key]
        if appeared:
            out.append(Discrepancy('C06/%s/foreign-entry-appeared' % algo, 'step %d: %r appeared' % (i, appeared)))
            return out, events, flags
        if has(pre, key):
            flags['hit'] += 1
            if removed or len(post) != len(pre):
                out.append(Discrepancy('C06/%s/hit-removed-entry' % algo, 'step %d: hit on %r removed %r' % (i, key, removed)))
                return out, events, flags
            last_use[key] = i
            count[key] = count.get(key, 0) + 1
            run_no_evict += 1
            events.append('h')
            if warm and len(pre) > ms:
                flags['hit_while_overfull'] = flags.get('hit_while_overfull', 0) + 1
        elif warm and algo != 'rr':
            # a miss on a warm-started lru/mru/lfu cache: which entry leaves is not defined by the statement; nothing is asserted
            events.append('w')
            for k in removed:
                last_use.pop(k, None); count.pop(k, None); inserted.pop(k, None)
            continue
        else:
            if len(pre) + 1 <= ms:
                if removed:
                    out.append(Discrepancy('C06/%s/evicted-without-overflow' % algo,
                                           'step %d: %r removed with %d resident, maxsize %d' % (i, removed, len(pre), ms)))
                    return out, events, flags
                run_no_evict += 1
                events.append('m')
            elif algo == 'rr':
                # RR needs no usage record: exactly one resident entry (or the new one) leaves, also when a bulk load() had over-filled the cache
                flags['overflow'] += 1
                if len(pre) > ms:
                    flags['rr_overflow_while_overfull'] = flags.get('rr_overflow_while_overfull', 0) + 1
                if len(removed) != 1:
                    out.append(Discrepancy('C06/rr/not-exactly-one', 'step %d: %d resident, maxsize %d: removed %r' % (i, len(pre), ms, removed)))
                    return out, events, flags
                events.append('o?')
                run_no_evict = 0
            else:
                flags['overflow'] += 1
                # the cache started within its bound and never bulk-loads here, so len(pre) == ms
                lu = dict(last_use); cn = dict(count); ins = dict(inserted)
                lu[key] = i; cn[key] = 1; ins[key] = i
                cand = pre_keys + [key]
                missing = [k for k in pre_keys if k not in lu]
                if missing:
                    out.append(Discrepancy('C06/model-desync', 'step %d: resident %r unknown to the model' % (i, missing)))
                    return out, events, flags
                fifo = min(pre_keys, key=lambda k: ins[k])
                if algo == 'lru':
                    victim = min(pre_keys, key=lambda k: lu[k])
                    if removed != [victim]:
                        out.append(Discrepancy('C06/lru/wrong-victim', 'step %d: removed %r, least recently used is %r (last uses %r)' % (
                            i, removed, victim, sorted((lu[k], repr(k)) for k in pre_keys))))
                        return out, events, flags
                elif algo == 'mru':
                    victim = max(pre_keys, key=lambda k: lu[k])
                    if removed != [victim]:
                        out.append(Discrepancy('C06/mru/wrong-victim', 'step %d: removed %r, most recently used before the call is %r (last uses %r)' % (
                            i, removed, victim, sorted((lu[k], repr(k)) for k in pre_keys))))
                        return out, events, flags
                elif algo == 'lfu':
                    kept = [k for k in cand if k not in removed]
                    if not removed:
                        out.append(Discrepancy('C06/lfu/nothing-removed', 'step %d' % i))
                        return out, events, flags
                    if kept and max(cn[k] for k in removed) > min(cn[k] for k in kept):
                        out.append(Discrepancy('C06/lfu/removed-more-frequent-entry', 'step %d: removed %r counts %r, kept counts %r' % (
                            i, removed, [cn[k] for k in removed], [cn[k] for k in kept])))
                        return out, events, flags
                    victim = removed[0]
                    if len(removed) > 1:
                        flags['lfu_multi'] += 1
                elif algo == 'rr':
                    if len(removed) != 1:
                        out.append(Discrepancy('C06/rr/not-exactly-one', 'step %d: removed %r' % (i, removed)))
                        return out, events, flags
                    victim = removed[0]
                else:
                    victim = None
                if algo in ('lru', 'mru', 'lfu') and victim != fifo and victim != key:
                    flags['victim_not_fifo'] += 1
                if compaction_possible:
                    flags['overflow_after_compaction'] += 1
                events.append('o%d' % (sorted(cand, key=lambda k: ins[k]).index(victim) if victim in cand else -1))
                run_no_evict = 0 if algo != 'lru' else run_no_evict
                run_no_evict = 0
            # model update for entry
            last_use[key] = i
            count[key] = 1
            inserted[key] = i
            for k in removed:
                last_use.pop(k, None); count.pop(k, None); inserted.pop(k, None)
        if run_no_evict > 10 * ms:
            compaction_possible = True
    return out, events, flags


def run_case(case):
    tr = H.run_history(case)
    discrs, events, flags = check_trace(case, tr)
    classes = base_classes(case) + ['maxsize:%r' % case['maxsize']]
    nt = None
    if flags:
        for k, v in flags.items():
            if v:
                classes.append(k)
        algo = H.effective_algo(case)
        if flags.get('victim_not_fifo') or flags.get('overflow_after_compaction') or (algo == 'rr' and flags.get('overflow')):
            nt = (case['module'], case['algo'], case['maxsize'], H.backend_archived(case['backend']), events)
        if flags.get('overflow_after_compaction') and algo == 'lru':
            classes.append('lru_overflow_after_compaction')
    return discrs, nt, sorted(set(classes))


REQUIRED_CLASSES = ['victim_not_fifo', 'lru_overflow_after_compaction', 'lfu_multi', 'algo:rr', 'algo:mru', 'algo:lfu', 'algo:lru', 'raising_call', 'rr_overflow_while_overfull', 'hit_while_overfull']
TRIGGERS = {}


# ---------------------------------------------------------------------------
# bounded-exhaustive complement (thorough tier): every history of length L over
# {call k1..k4, clear} for 4 algorithms x 2 modules x maxsize {1,2,3} x {no archive, dict archive}

def _enum_case(module, algo, ms, backend, seq):
    pool = [{'named': [['x', ['i', j]]]} for j in range(4)]
    ops = [['clear'] if t == 4 else ['call', t, 0, (n * 7 + t) % 5] for n, t in enumerate(seq)]
    return {'module': module, 'algo': algo, 'maxsize': ms, 'ms_pos': False, 'purge': False, 'keymap': None,
            'backend': backend, 'sig': {'req': ['x']}, 'rmode': 'str', 'pool': pool, 'ops': ops}


def extra_passes(run, tier, shard, nshards):
    if tier != 'thorough':
        return
    L = 7
    configs = [(m, a, ms, b) for m in ('std', 'safe') for a in ('lru', 'mru', 'lfu', 'rr') for ms in (1, 2, 3)
               for b in ('none', 'cache_dict')]
    n = 0
    for ci, (m, a, ms, b) in enumerate(configs):
        if ci % nshards != shard:
            continue
        for seq in itertools.product(range(5), repeat=L):
            case = _enum_case(m, a, ms, b, seq)
            tr = H.run_history(case)
            discrs, events, flags = check_trace(case, tr)
            n += 1
            if discrs:
                path = run.write_replay(case, discrs, tag='enum')
                for d in discrs:
                    run.violations.append((d.sig, d.detail, case, path))
                return
    run.evaluations += n
    run.classes['exhaustive_histories_len%d' % L] += n
    run.extra['exhaustive_subspace'] = 'all 5^%d histories over {call k1..k4, clear} x 48 configs (lru/mru/lfu/rr x std/safe x maxsize 1-3 x none/dict archive)' % L
    run.extra['exhaustive_subspace_complete'] = True
