"""C03 every archive type refines a Python dict."""
import os, shutil, tempfile, copy
from hypothesis import strategies as st
from harness import arch as A, values as V
from harness.cachehist import exc_sig, _tmproot
from harness.core import Discrepancy

PROP = 'C03'
LEVEL = 'exploration'
RULE = ("cases = archive configuration (dict, null, file x {pickle, json, source}, dir x {dill, fast, compressed, memmode, json, source}, sqlite x "
        "{memory, file}) x {used directly, behind an in-memory cache} x an alias-free pool of 3-6 keys (simple str/int/tuple/bytes/float keys and keys "
        "produced by klepto's own raw/string/hash/pickle keymaps) x values from the codec's domain x a sequence of up to 25 mapping operations "
        "(__setitem__ __getitem__ __delitem__ __contains__ __len__ __iter__ keys values items get pop popitem popkeys setdefault update (mapping / "
        "pairs / mapping+kwds / another archive) clear copy(name) == != and a store of a value the codec cannot encode) spread over two archives A, B "
        "stored side by side and a copy C. Oracle = a Python dict per archive stepped in lock-step: same return value (type-exact) or KeyError exactly "
        "where the dict raises it; popitem/iteration as validity predicates (any item of the model / same multiset); a failing store must raise and "
        "change nothing; after EVERY step dict(X.items()), len, set(keys), membership of every pool key agree for A, B and C, and A == B iff the "
        "models are equal. null archive: a dict that discards writes. non-trivial = the sequence has an overwrite-then-read, or a delete/pop of a "
        "missing key, or a failing store followed by a successful operation, or an operation on one archive while the other is non-empty; "
        "distinct = (config, cached, op-kind sequence)")
ASSUMPTIONS = ['main pass uses alias-free key pools for directory archives (distinct keys have distinct directory names; no "/" or NUL; <= 200 bytes); the aliasing pairs themselves are probed separately',
               'update() without a positional argument, None keys for sqlite, a str passed as the keys argument of popkeys: not generated (signature / documented key domain)',
               'JSON codecs: str keys and JSON-native values; source-text codecs: ascii, finite floats, importable names; sqlite: str/int/bytes keys and scalar values',
               'nan is not generated', 'hdf / sqlalchemy back ends are not installed']

N = {'quick': 1400, 'thorough': 15000}
EXCLUDED = {'failing-store ops on source-text archives (finding D9c, probed)': 'by construction', 'aliasing / slash keys for dir archives (findings D8a, D8b, probed)': 'by construction'}
SHARDS = {'quick': 4, 'thorough': 16}

QUICK_CONFIGS = A.ALL
OPS = ['set', 'set', 'set', 'get', 'del', 'in', 'len', 'iter', 'keys', 'values', 'items', 'getd', 'getd2', 'pop', 'popd', 'popitem',
       'popkeys', 'popkeysd', 'setdef', 'setdef2', 'upd_map', 'upd_pairs', 'upd_kw', 'upd_arch', 'clear', 'copy', 'eq', 'ne', 'poison']


@st.composite
def cases(draw, cfg, cached):
    pool = draw(A.key_pools(cfg))
    nk = len(pool)
    vals = draw(st.lists(A.values(cfg), min_size=3, max_size=6))
    nv = len(vals)
    ki = st.integers(0, nk - 1)
    vi = st.integers(0, nv - 1)
    tgt = st.sampled_from([0, 0, 0, 1, 1, 2])
    n = draw(st.integers(1, 25))
    ops = []
    poisons = A.POISON[A.codec(cfg)]
    for _ in range(n):
        kind = draw(st.sampled_from(OPS))
        t = draw(tgt)
        if kind in ('set', 'getd2', 'popd', 'setdef2'):
            ops.append([kind, t, draw(ki), draw(vi)])
        elif kind in ('get', 'del', 'in', 'getd', 'pop', 'setdef'):
            ops.append([kind, t, draw(ki)])
        elif kind in ('len', 'iter', 'keys', 'values', 'items', 'popitem', 'clear', 'copy'):
            ops.append([kind, t])
        elif kind == 'popkeys':
            ops.append([kind, t, draw(st.lists(ki, max_size=3))])      # a key may be listed twice: the second pop of it is a miss
        elif kind == 'popkeysd':
            ops.append([kind, t, draw(st.lists(ki, max_size=3)), draw(vi)])
        elif kind in ('upd_map', 'upd_pairs'):
            ops.append([kind, t, [list(x) for x in draw(st.lists(st.tuples(ki, vi), max_size=3))]])
        elif kind == 'upd_kw':
            ops.append([kind, t, [list(x) for x in draw(st.lists(st.tuples(ki, vi), max_size=2))],
                        [[nm, draw(vi)] for nm in draw(st.lists(st.sampled_from(['kx', 'ky']), unique=True, min_size=1, max_size=2))]])
        elif kind in ('upd_arch', 'eq', 'ne'):
            ops.append([kind, t, draw(tgt)])
        elif kind == 'poison':
            if poisons:
                ops.append([kind, t, draw(ki), draw(st.sampled_from(poisons)), draw(st.sampled_from(['set', 'update', 'setdefault']))])
    if draw(st.integers(0, 3)) == 0:
        # constructed opening: a key holding a FALSY value (None, 0, '') is present, not absent - setdefault / get / pop with a default must say so
        vals = vals + [draw(st.sampled_from([['n'], ['i', 0], ['s', '']]))]
        fi, k, other, t = len(vals) - 1, draw(ki), draw(vi), draw(st.sampled_from([0, 0, 1]))
        ops = [['set', t, k, fi], ['setdef2', t, k, other], ['getd2', t, k, other], ['get', t, k], ['popd', t, k, other], ['set', t, k, fi], ['setdef', t, k], ['in', t, k],
               ['setdef2', t, k, other]] + ops
    return {'cfg': cfg, 'cached': cached, 'keys': pool, 'vals': vals, 'ops': ops, 'falsy_opening': True if len(vals) > nv else False}


def strata(tier):
    out = []
    for cfg in A.ALL:
        out.append((cfg + '/direct', cases(cfg, False)))
    for cfg in A.ALL:
        out.append((cfg + '/cached', cases(cfg, True)))
    return out


# ------------------------------------------------------------ execution

class Null(dict):
    """reference model of the null archive: a dict that discards every write"""
    def __setitem__(self, k, v):
        pass
    def update(self, *a, **k):
        pass
    def setdefault(self, k, d=None):
        return d


MISSING = object()


def outcome(fn):
    try:
        return ('ok', fn())
    except KeyError:
        return ('KeyError', None)
    except Exception as e:
        return ('exc', e)


def run_case(case):
    root = tempfile.mkdtemp(prefix='c03_', dir=_tmproot())
    cwd = os.getcwd()
    try:
        return _run(case, root)
    finally:
        os.chdir(cwd)
        shutil.rmtree(root, ignore_errors=True)


def _run(case, root):
    cfg, cached = case['cfg'], case['cached']
    keys = [A.build_key(s) for s in case['keys']]
    vals = [V.build(s) for s in case['vals']]
    tag = '%s%s' % (cfg, '+cache' if cached else '')
    classes = ['cfg:' + cfg, 'cached' if cached else 'direct'] + (['falsy_value_opening'] if case.get('falsy_opening') else [])
    out = []
    flags = {'overwrite_read': 0, 'missing_del': 0, 'fail_then_ok': 0, 'other_nonempty': 0}
    mk = Null if (cfg == 'null' and not cached) else dict
    try:
        real = [A.open_archive(cfg, root, 'A', cached=cached), A.open_archive(cfg, root, 'B', cached=cached)]
    except Exception as e:
        return [Discrepancy('C03/%s/open/%s' % (tag, exc_sig(e)), repr(e))], None, classes
    model = [mk(), mk()]
    overwritten = set()
    failed_pending = False
    kinds = []

    def arch(x):
        return x.archive if cached else x

    def check_all(step, op):
        for i in range(len(real)):
            m = dict(model[i])
            r = real[i]
            try:
                got = A.contents(r)
            except Exception as e:
                return Discrepancy('C03/%s/%s/contents-unreadable-after/%s' % (tag, op[0], exc_sig(e)), 'step %d %r: items() of archive %d raised %r; model %s' % (step, op, i, e, A.describe(m)))
            if not A.exact(got, m):
                alien = [k for k in got if not any(A.exact(k, mk_) for mk_ in m)]
                lost = [k for k in m if not any(A.exact(k, gk) for gk in got)]
                what = 'phantom-or-retyped-key' if alien else ('lost-key' if lost else 'wrong-value')
                who = 'target' if i == (op[1] if len(op) > 1 and isinstance(op[1], int) and op[1] < len(real) else 0) else 'other-archive'
                return Discrepancy('C03/%s/%s/contents-differ/%s/%s' % (tag, op[0], who, what),
                                   'step %d %r: archive %d holds %s, a dict would hold %s' % (step, op, i, A.describe(got), A.describe(m)))
            try:
                n = len(r)
                ks = list(r.keys())
                member = [k in r for k in keys]
            except Exception as e:
                return Discrepancy('C03/%s/%s/len-keys-contains-raised/%s' % (tag, op[0], exc_sig(e)), 'step %d %r: %r' % (step, op, e))
            if n != len(m):
                return Discrepancy('C03/%s/%s/len-differs' % (tag, op[0]), 'step %d %r: len %d, model %d' % (step, op, n, len(m)))
            if not A.same_multiset(ks, list(m.keys())):
                return Discrepancy('C03/%s/%s/keys-differ' % (tag, op[0]), 'step %d %r: keys %r, model %r' % (step, op, ks, list(m)))
            want = [k in m for k in keys]
            if member != want:
                return Discrepancy('C03/%s/%s/membership-differs' % (tag, op[0]), 'step %d %r: %r vs model %r for keys %r' % (step, op, member, want, keys))
        if not cached and len(real) >= 2:
            try:
                e = (real[0] == real[1])
                ne = (real[0] != real[1])
            except Exception as ex:
                return Discrepancy('C03/%s/%s/eq-raised/%s' % (tag, op[0], exc_sig(ex)), repr(ex))
            want = dict(model[0]) == dict(model[1])
            if e is not want or ne is not (not want):
                return Discrepancy('C03/%s/eq/disagrees-with-contents' % tag, 'step %d %r: A == B is %r, A != B is %r; models equal: %r (%s vs %s)' % (
                    step, op, e, ne, want, A.describe(model[0]), A.describe(model[1])))
        return None

    for step, op in enumerate(case['ops']):
        kind = op[0]
        t = op[1] if op[1] < len(real) else 0
        r, m = real[t], model[t]
        others_nonempty = any(len(model[j]) for j in range(len(model)) if j != t)
        d = None
        kinds.append(kind)
        try:
            if kind == 'set':
                k, v = keys[op[2]], vals[op[3]]
                if k in m:
                    overwritten.add((t, op[2]))
                ro = outcome(lambda: r.__setitem__(k, v))
                m[k] = copy.deepcopy(v)
                if ro[0] != 'ok':
                    d = _unexpected(tag, step, op, ro, 'ok')
            elif kind in ('get', 'getd', 'getd2', 'pop', 'popd', 'setdef', 'setdef2'):
                k = keys[op[2]]
                dflt = vals[op[3]] if len(op) > 3 else MISSING
                if kind == 'get':
                    ro, mo = outcome(lambda: r[k]), outcome(lambda: m[k])
                    if (t, op[2]) in overwritten and k in m:
                        flags['overwrite_read'] += 1
                elif kind == 'getd':
                    ro, mo = outcome(lambda: r.get(k)), outcome(lambda: m.get(k))
                elif kind == 'getd2':
                    ro, mo = outcome(lambda: r.get(k, dflt)), outcome(lambda: m.get(k, dflt))
                elif kind == 'pop':
                    if k not in m:
                        flags['missing_del'] += 1
                    ro, mo = outcome(lambda: r.pop(k)), outcome(lambda: m.pop(k))
                elif kind == 'popd':
                    if k not in m:
                        flags['missing_del'] += 1
                    ro, mo = outcome(lambda: r.pop(k, dflt)), outcome(lambda: m.pop(k, dflt))
                elif kind == 'setdef':
                    ro, mo = outcome(lambda: r.setdefault(k)), outcome(lambda: m.setdefault(k))
                else:
                    ro, mo = outcome(lambda: r.setdefault(k, dflt)), outcome(lambda: m.setdefault(k, copy.deepcopy(dflt)))
                d = _compare(tag, step, op, ro, mo)
            elif kind == 'del':
                k = keys[op[2]]
                if k not in m:
                    flags['missing_del'] += 1
                ro, mo = outcome(lambda: r.__delitem__(k)), outcome(lambda: m.__delitem__(k))
                d = _compare(tag, step, op, ro, mo)
            elif kind == 'in':
                k = keys[op[2]]
                d = _compare(tag, step, op, outcome(lambda: k in r), outcome(lambda: k in m))
            elif kind == 'len':
                d = _compare(tag, step, op, outcome(lambda: len(r)), outcome(lambda: len(m)))
            elif kind in ('iter', 'keys', 'values', 'items'):
                f = {'iter': lambda x: list(iter(x)), 'keys': lambda x: list(x.keys()), 'values': lambda x: list(x.values()),
                     'items': lambda x: list(x.items())}[kind]
                ro, mo = outcome(lambda: f(r)), outcome(lambda: f(m))
                if ro[0] != 'ok':
                    d = _unexpected(tag, step, op, ro, 'ok')
                elif not A.same_multiset(ro[1], mo[1]):
                    d = Discrepancy('C03/%s/%s/result-differs' % (tag, kind), 'step %d %r: %r, a dict gives %r' % (step, op, ro[1], mo[1]))
            elif kind == 'popitem':
                ro = outcome(lambda: r.popitem())
                if not m:
                    if ro[0] != 'KeyError':
                        d = _unexpected(tag, step, op, ro, 'KeyError')
                elif ro[0] != 'ok':
                    d = _unexpected(tag, step, op, ro, 'ok')
                else:
                    item = ro[1]
                    hit = [k for k in m if isinstance(item, tuple) and len(item) == 2 and A.exact(k, item[0]) and A.exact(m[k], item[1])]
                    if not hit:
                        d = Discrepancy('C03/%s/popitem/returned-item-not-in-contents' % tag, 'step %d: %r, contents %s' % (step, item, A.describe(m)))
                    else:
                        del m[hit[0]]
            elif kind in ('popkeys', 'popkeysd'):
                ks = [keys[i] for i in op[2]]
                if any(k not in m for k in ks):
                    flags['missing_del'] += 1
                if kind == 'popkeys':
                    ro = outcome(lambda: r.popkeys(ks))
                    if len(set(map(repr, ks))) != len(ks):
                        classes.append('popkeys_repeated_key')
                    shadow = dict(m)
                    try:
                        [shadow.pop(k) for k in ks]          # the sequential pops a dict would do
                        mo = ('ok', [m.pop(k) for k in ks])
                    except KeyError:
                        mo = ('KeyError', None)      # documented: KeyError, and (all-or-nothing) nothing removed
                else:
                    dflt = vals[op[3]]
                    ro = outcome(lambda: r.popkeys(ks, dflt))
                    mo = ('ok', [m.pop(k, dflt) for k in ks])
                d = _compare(tag, step, op, ro, mo)
            elif kind in ('upd_map', 'upd_pairs', 'upd_kw'):
                pairs = [(keys[i], vals[j]) for i, j in op[2]]
                kw = dict((nm, vals[j]) for nm, j in op[3]) if kind == 'upd_kw' else {}
                if kind == 'upd_pairs':
                    ro = outcome(lambda: r.update(list(pairs)))
                elif kind == 'upd_map':
                    ro = outcome(lambda: r.update(dict(pairs)))
                else:
                    if not all(A.key_ok(cfg, nm) for nm in kw) or (A.is_dir(cfg) and any(A.fname(nm) == A.fname(k) and nm != k for nm in kw for k in keys)):
                        kw = {}
                    given = dict(pairs)
                    ro = outcome(lambda: r.update(given, **kw))
                    if ro[0] == 'ok' and not A.exact(given, dict(pairs)):
                        # dict.update(m, **kw) never writes into m: the mapping handed in belongs to the caller
                        d = Discrepancy('C03/%s/upd_kw/argument-mapping-modified' % tag, 'step %d %r: update(mapping, **%r) changed the mapping it was given: %s -> %s' % (
                            step, op, kw, A.describe(dict(pairs)), A.describe(given)))
                m.update(copy.deepcopy(dict(pairs)), **copy.deepcopy(kw))
                if ro[0] != 'ok':
                    d = _unexpected(tag, step, op, ro, 'ok')
            elif kind == 'upd_arch':
                t2 = op[2] if op[2] < len(real) else 0
                src = real[t2]
                ro = outcome(lambda: r.update(arch(src) if cached else src))
                if cached:
                    sn = outcome(lambda: dict(A.contents(arch(src))))
                    snapshot = sn[1] if sn[0] == 'ok' else {}
                else:
                    snapshot = dict(model[t2])
                m.update(copy.deepcopy(snapshot))
                if ro[0] != 'ok':
                    d = _unexpected(tag, step, op, ro, 'ok')
            elif kind == 'clear':
                ro = outcome(lambda: r.clear())
                m.clear()
                if ro[0] != 'ok':
                    d = _unexpected(tag, step, op, ro, 'ok')
            elif kind == 'copy':
                if len(real) < 3 and not cached:
                    ro = outcome(lambda: r.copy(A.copy_name(cfg, root, 'C')))
                    if ro[0] != 'ok':
                        d = _unexpected(tag, step, op, ro, 'ok')
                    else:
                        c = ro[1]
                        real.append(c)
                        model.append(mk(m))
                        classes.append('copied')
                        try:
                            eqv, nev = (c == r), (c != r)
                            if eqv is not True or nev is not False:
                                d = Discrepancy('C03/%s/copy/not-equal-to-source' % tag, 'step %d: copy == source is %r, != is %r; source %s' % (step, eqv, nev, A.describe(m)))
                        except Exception as e:
                            d = Discrepancy('C03/%s/copy/eq-raised/%s' % (tag, exc_sig(e)), repr(e))
                elif cached:
                    # behind a cache: flush to the archive and compare the archive with the model
                    ro = outcome(lambda: r.sync(clear=True))
                    if ro[0] != 'ok':
                        d = _unexpected(tag, step, op, ro, 'ok')
                    else:
                        goto = outcome(lambda: A.contents(r.archive))
                        got = goto[1]
                        want = {} if cfg == 'null' else dict(m)
                        classes.append('synced')
                        if goto[0] != 'ok':
                            d = Discrepancy('C03/%s/sync/archive-unreadable/%s' % (tag, exc_sig(got) if goto[0] == 'exc' else 'KeyError'), 'step %d: items() of the archive raised after sync(clear=True) of %s' % (step, A.describe(want)))
                        elif not A.exact(got, want):
                            d = Discrepancy('C03/%s/sync/archive-differs-from-cache' % tag, 'step %d: archive %s, cache %s' % (step, A.describe(got), A.describe(want)))
            elif kind in ('eq', 'ne'):
                t2 = op[2] if op[2] < len(real) else 0
                if not cached:
                    want = dict(m) == dict(model[t2])
                    if kind == 'eq':
                        d = _compare(tag, step, op, outcome(lambda: r == real[t2]), ('ok', want))
                    else:
                        d = _compare(tag, step, op, outcome(lambda: r != real[t2]), ('ok', not want))
            elif kind == 'poison':
                k = keys[op[2]]
                pv = A.poison(op[3])
                target = arch(r) if cached else r
                how = op[4]
                bo = outcome(lambda: A.contents(target)) if cached else None
                before = bo[1] if (bo and bo[0] == 'ok') else None
                if how == 'set':
                    ro = outcome(lambda: target.__setitem__(k, pv))
                elif how == 'update':
                    ro = outcome(lambda: target.update({k: pv}))
                else:
                    if cached:
                        present = before is None or k in before
                    else:
                        present = k in m
                    ro = outcome(lambda: target.setdefault(k, pv)) if not present else ('exc', None)
                if ro[0] == 'ok' and cfg != 'null':
                    d = Discrepancy('C03/%s/%s/unencodable-value-accepted' % (tag, how), 'step %d %r: storing %r did not raise' % (step, op, pv))
                failed_pending = True
                classes.append('failing_store')
                if cached and d is None and before is not None:
                    after = outcome(lambda: A.contents(target))
                    if after[0] != 'ok' or not A.exact(after[1], before):
                        d = Discrepancy('C03/%s/%s/failed-store-changed-archive' % (tag, how), 'step %d %r: archive before %s, after %r' % (step, op, A.describe(before), after[1]))
            else:
                raise ValueError(kind)
        except Exception as e:
            import traceback
            raise RuntimeError('harness error in op %r: %s' % (op, traceback.format_exc()))
        if d is None:
            d = check_all(step, op)
        if d is not None:
            out.append(d)
            break
        if failed_pending and kind != 'poison':
            flags['fail_then_ok'] += 1
            failed_pending = False
        if others_nonempty and kind not in ('eq', 'ne', 'len', 'in'):
            flags['other_nonempty'] += 1
    for r in real:
        try:
            conn = getattr(A_arch(r, cached), '_conn', None)
            if conn is not None:
                conn.close()
        except Exception:
            pass
    for k, v in flags.items():
        if v:
            classes.append(k)
    nt = None
    if any(flags.values()):
        nt = (cfg, cached, kinds)
    for kd in set(kinds):
        classes.append('op:' + kd)
    return out, nt, classes


def A_arch(x, cached):
    return x.archive if cached else x


def _unexpected(tag, step, op, ro, want):
    if ro[0] == 'exc':
        return Discrepancy('C03/%s/%s/raised/%s' % (tag, op[0], exc_sig(ro[1])), 'step %d %r raised %r; a dict would %s' % (
            step, op, ro[1], 'raise KeyError' if want == 'KeyError' else 'succeed'))
    if ro[0] == 'KeyError':
        return Discrepancy('C03/%s/%s/KeyError-where-dict-succeeds' % (tag, op[0]), 'step %d %r' % (step, op))
    return Discrepancy('C03/%s/%s/no-KeyError-on-missing' % (tag, op[0]), 'step %d %r returned %r; a dict raises KeyError' % (step, op, ro[1]))


def _compare(tag, step, op, ro, mo):
    if mo[0] == 'KeyError':
        if ro[0] != 'KeyError':
            return _unexpected(tag, step, op, ro, 'KeyError')
        return None
    if ro[0] != 'ok':
        return _unexpected(tag, step, op, ro, 'ok')
    if not A.exact(ro[1], mo[1]):
        return Discrepancy('C03/%s/%s/result-differs' % (tag, op[0]), 'step %d %r returned %r, a dict returns %r' % (step, op, ro[1], mo[1]))
    return None


REQUIRED_CLASSES = ['falsy_value_opening', 'popkeys_repeated_key', 'overwrite_read', 'missing_del', 'fail_then_ok', 'other_nonempty', 'copied', 'synced', 'cached', 'direct'] + ['cfg:' + c for c in A.ALL]


def _keys_of(case):
    return [A.build_key(k) for k in case['keys']]


def _t_alias(case, discr):
    ks = _keys_of(case)
    return A.is_dir(case['cfg']) and any(A.fname(a) == A.fname(b) and not (a == b and type(a) is type(b)) for i, a in enumerate(ks) for b in ks[i + 1:])


def _t_slash(case, discr):
    return A.is_dir(case['cfg']) and any('/' in str(A.fname(k)[1]) for k in _keys_of(case) if A.fname(k)[0] == 'str')


def _t_src_poison(case, discr):
    return A.codec(case['cfg']) == 'src' and any(op[0] == 'poison' for op in case['ops'])


TRIGGERS = {'dir_alias_pair': _t_alias, 'dir_slash_key': _t_slash, 'src_poison': _t_src_poison}


def probes(run):
    """regression for D8f (fixed): a key whose directory name exceeds the file-system limit is outside the backend's key domain;
    the store must fail loudly and leave no temporary directory listed as a key"""
    root = tempfile.mkdtemp(prefix='c03p_', dir=_tmproot())
    try:
        a = A.open_archive('dir_dill', root, 'A')
        a['a'] = 1
        try:
            a['k' * 300] = 2
            raised = False
        except OSError:
            raised = True
        got = outcome(lambda: A.contents(a))
        run.evaluations += 1
        run.classes['probe_long_key'] += 1
        if got[0] != 'ok' or not A.exact(got[1], {'a': 1}) or not raised:
            d = Discrepancy('C03/dir_dill/set/long-key-store-left-phantom-or-was-silent', 'raised=%r contents=%r' % (raised, got[1]))
            path = run.write_replay({'probe': 'long_key'}, [d], tag='probe')
            run.violations.append((d.sig, d.detail, None, path))
    finally:
        shutil.rmtree(root, ignore_errors=True)
