"""C13 crash atomicity of archive writes: every file-system-call crash point of every mutating operation."""
import os, shutil, tempfile, copy
from hypothesis import strategies as st
from harness import arch as A, values as V, shim, procs
from harness.cachehist import exc_sig, _tmproot
from harness.core import Discrepancy, HarnessError, Multi

PROP = 'C13'
LEVEL = 'fault_enumeration'
NEEDS_SHIM = True
RULE = ("cases = persistent archive configuration (file x {pickle, json, source}, dir x {dill, fast, compressed, memmode, json, source}, sqlite file) x prior "
        "state (0-5 generated writes) x ONE operation {set new / overwrite, update of 1-3 keys, del, pop, popitem, setdefault, clear, cache.dump(), "
        "cache.dump(k...), cache.sync(), merely opening the archive through klepto.archives.X(name, cached=False|True) with or without a seed dict}. The "
        "operation (including the open that precedes it) runs in a forked child under the libc interposition shim; a dry run counts its N mutating "
        "file-system calls under the archive root (open-for-write, write/pwrite/writev, close, mkdir, rename, unlink, rmdir, ftruncate, fsync, chmod...); "
        "then for EVERY k in 1..N a fresh copy of the prior state is made and the child is killed (_exit, no cleanup) just before its k-th call, and for "
        "write calls additionally after half and after all-but-one of the bytes (partial write). Oracle, in a NEW process opening the archive the way a "
        "user does: open, dict(items()), len, keys and a cached open + load() all succeed and agree; every key touched by the operation holds its "
        "previous value (or absence) or the new one; every untouched key is unchanged; no key that was never stored appears. The enumeration over k is "
        "complete per (state, operation) (exhaustive: true). One stratum per (configuration, operation kind); an extra SECOND-GENERATION stratum per configuration first kills "
        "one operation at a drawn point, verifies the debris, optionally applies ordinary operations on top, and then enumerates every kill point of a second "
        "operation on that state (crash leftovers must not break later operations). non-trivial = crash point strictly inside the operation (1 < k <= N) on a non-empty "
        "archive; distinct = (config, operation kind, kind of the interrupted call, k, N)")
ASSUMPTIONS = ['a quarter of the cases put TMPDIR on another file system (first of /dev/shm, /run/shm, /var/tmp, /tmp whose st_dev differs); where none exists the class other_fs_unavailable is reported instead',
               'process kill, not power loss: what was written before the kill is visible afterwards (page cache), no reordering of un-fsynced writes',
               'crash points are the libc calls of the interposed set (list taken from nm -D of libpython and libsqlite3); the thorough tier cross-checks the set against strace',
               'values are small and within each codec domain; keys are alias-free and session-stable',
               'one operation per crash experiment; the verifying open may itself rewrite the archive (as any user open does)']

N = {'quick': 120, 'thorough': 4000}
SHARDS = {'quick': 4, 'thorough': 16}
TIME_BUDGET = {'quick': 150, 'thorough': 3000}
CONFIGS = A.PERSISTENT

OPKINDS = ['set', 'set', 'upd', 'del', 'pop', 'popitem', 'setdef', 'clear', 'dump', 'dumpk', 'sync', 'open', 'open_seed', 'open_cached']


def small_values(cfg):
    c = A.codec(cfg)
    if c == 'sql':
        return st.one_of(V.ints(), V.strs(False), V.floats())
    if c in ('json', 'src'):
        return st.one_of(V.ints(), V.strs(False), st.lists(V.ints(), max_size=2).map(lambda xs: ['l', xs]))
    return st.one_of(V.ints(), V.strs(False), st.lists(V.ints(), max_size=2).map(lambda xs: ['l', xs]), st.lists(V.ints(), max_size=2).map(lambda xs: ['t', xs]), V.NONE)


def draw_op(draw, kind, ki, vi, focus=None):
    k = (lambda: focus) if focus is not None else (lambda: draw(ki))
    if kind == 'set':
        return ['set', k(), draw(vi)]
    if kind == 'upd':
        return ['upd', [[k(), draw(vi)]] + [[draw(ki), draw(vi)] for _ in range(draw(st.integers(0, 2)))]]
    if kind in ('del', 'pop'):
        return [kind, k()]
    if kind == 'setdef':
        return ['setdef', k(), draw(vi)]
    if kind in ('popitem', 'clear', 'open', 'open_cached'):
        return [kind]
    if kind in ('dump', 'sync'):
        return [kind, [[k(), draw(vi)]] + [[draw(ki), draw(vi)] for _ in range(draw(st.integers(0, 2)))]]
    if kind == 'dumpk':
        return [kind, [[k(), draw(vi)]] + [[draw(ki), draw(vi)] for _ in range(draw(st.integers(0, 2)))], draw(st.lists(ki, min_size=1, max_size=2))]
    return ['open_seed', [[k(), draw(vi)]] + [[draw(ki), draw(vi)] for _ in range(draw(st.integers(0, 1)))]]


@st.composite
def cases(draw, cfg, kind=None):
    pool = draw(A.key_pools(cfg, n=(2, 4), stable_only=True))
    nk = len(pool)
    vals = draw(st.lists(small_values(cfg), min_size=3, max_size=4))
    ki, vi = st.integers(0, nk - 1), st.integers(0, len(vals) - 1)
    prior = []
    for _ in range(draw(st.integers(0, 5))):
        k = draw(st.sampled_from(['set', 'set', 'set', 'del', 'upd']))
        if k == 'set':
            prior.append(['set', draw(ki), draw(vi)])
        elif k == 'del':
            prior.append(['del', draw(ki)])
        else:
            prior.append(['upd', [[draw(ki), draw(vi)] for _ in range(draw(st.integers(1, 2)))]])
    if kind == 'gen2redo':
        # the same key removed, the removal killed, the key stored again and removed again: leftovers of the first removal carry the key's name/identity
        focus = draw(ki)
        prior = prior + [['set', focus, draw(vi)]]
        op1 = draw_op(draw, draw(st.sampled_from(['del', 'pop', 'clear'])), ki, vi, focus)
        op2 = draw_op(draw, draw(st.sampled_from(['del', 'pop', 'clear', 'set'])), ki, vi, focus)
        return {'cfg': cfg, 'keys': pool, 'vals': vals, 'prior': prior, 'op': op1, 'k1': draw(st.integers(0, 40)), 'prior2': [['set', focus, draw(vi)]], 'op2': op2,
                'tmp_elsewhere': False, 'seeded_rng': draw(st.booleans())}
    if kind == 'gen2seeded':
        # a program that seeds the global random generator the same way in every run: a store is killed, the next run draws the SAME
        # temporary names and meets the debris. The killed store is of a key that needs an extra input file (not a plain string), the next one
        # of another key - preferably a plain string
        nonstr = [i for i, sp in enumerate(pool) if sp[0] != 's']
        strs = [i for i, sp in enumerate(pool) if sp[0] == 's']
        k1 = draw(st.sampled_from(nonstr or list(range(nk))))
        k2 = draw(st.sampled_from([i for i in (strs or list(range(nk))) if i != k1] or [k1]))
        op1 = ['set', k1, draw(vi)]
        op2 = draw(st.sampled_from([['set', k2, draw(vi)], ['upd', [[k2, draw(vi)]]], ['setdef', k2, draw(vi)], ['dump', [[k2, draw(vi)]]]]))
        return {'cfg': cfg, 'keys': pool, 'vals': vals, 'prior': prior, 'op': op1, 'k1': draw(st.integers(0, 40)), 'prior2': [], 'op2': op2,
                'tmp_elsewhere': False, 'seeded_rng': True}
    if kind == 'gen2':
        # second generation: the prior state of the enumerated operation is itself the debris of a crashed operation
        # (leftover staging / hidden directories, journals, temporary files), possibly followed by a few ordinary operations
        focus = draw(ki)
        prior = prior + [['set', focus, draw(vi)]]
        op1 = draw_op(draw, draw(st.sampled_from(['del', 'pop', 'set', 'clear', 'upd', 'setdef', 'dump'])), ki, vi, focus)
        prior2 = [['set', focus, draw(vi)]] if draw(st.booleans()) else []
        if draw(st.integers(0, 3)) == 0:
            prior2.append(['set', draw(ki), draw(vi)])
        op2 = draw_op(draw, draw(st.sampled_from(['del', 'pop', 'set', 'clear', 'upd', 'open'])), ki, vi, focus if draw(st.integers(0, 9)) < 7 else None)
        return {'cfg': cfg, 'keys': pool, 'vals': vals, 'prior': prior, 'op': op1, 'k1': draw(st.integers(0, 40)), 'prior2': prior2, 'op2': op2,
                'tmp_elsewhere': draw(st.integers(0, 3)) == 0, 'seeded_rng': draw(st.booleans())}
    kind = kind or draw(st.sampled_from(OPKINDS))
    # a quarter of the cases run the operation with the process's temporary directory (TMPDIR) on another file system than the archive
    return {'cfg': cfg, 'keys': pool, 'vals': vals, 'prior': prior, 'op': draw_op(draw, kind, ki, vi), 'tmp_elsewhere': draw(st.integers(0, 3)) == 0}


def strata(tier):
    # one stratum per (configuration, operation kind) - every combination gets its own budget - plus a second-generation stratum per configuration
    out = []
    for c in CONFIGS:
        for k in sorted(set(OPKINDS)):
            out.append(('%s/%s' % (c, k), cases(c, k)))
        out.append(('%s/gen2' % c, cases(c, 'gen2')))
        out.append(('%s/gen2redo' % c, cases(c, 'gen2redo')))
        if A.is_dir(c):
            out.append(('%s/gen2seeded' % c, cases(c, 'gen2seeded'), 2))
    return out


# ------------------------------------------------------------ the operation (runs in the armed child)

_ELSEWHERE = {'dir': None}


def other_filesystem_dir(base):
    """a scratch directory on ANOTHER file system than base (tmpfs vs disk), or None: the system temporary directory of a user need not be on the
    archive's file system, and a rename from there is a copy"""
    try:
        dev = os.stat(base).st_dev
    except OSError:
        return None
    for cand in ('/dev/shm', '/run/shm', '/var/tmp', '/tmp'):
        try:
            if os.path.isdir(cand) and os.access(cand, os.W_OK) and os.stat(cand).st_dev != dev:
                return tempfile.mkdtemp(prefix='c13_tmp_', dir=cand)
        except OSError:
            continue
    return None


_SEEDED = {'on': False}


def perform(cfg, root, op, keys, vals):
    if _SEEDED['on']:
        import random
        random.seed(20240229)            # the user program seeds the global generator the same way in every run (reproducible science)
    if _ELSEWHERE['dir']:
        os.environ['TMPDIR'] = _ELSEWHERE['dir']         # in the armed child only
        tempfile.tempdir = None
    kind = op[0]
    if kind in ('set', 'upd', 'del', 'pop', 'setdef', 'clear', 'popitem'):
        a = A.open_archive(cfg, root, 'A')
        if kind == 'popitem':
            try:
                return ('popped', a.popitem())
            except KeyError:
                return ('popped', None)
        A.apply_write(a, op, keys, vals)
        return None
    if kind in ('dump', 'dumpk', 'sync'):
        c = A.open_archive(cfg, root, 'A', cached=True)
        c.update(dict((keys[i], vals[j]) for i, j in op[1]))
        if kind == 'dump':
            c.dump()
        elif kind == 'sync':
            c.sync()
        else:
            c.dump(*[keys[i] for i in op[2]])
        return None
    if kind == 'open':
        A.open_archive(cfg, root, 'A')
        return None
    if kind == 'open_cached':
        A.open_archive(cfg, root, 'A', cached=True)
        return None
    if kind == 'open_seed':
        A.open_archive(cfg, root, 'A', seed_dict=dict((keys[i], vals[j]) for i, j in op[1]))
        return None
    raise ValueError(kind)


def expected_after(model, op, keys, vals):
    """S1: the model after the operation completes (popitem: None, handled separately)"""
    m = dict((k, copy.deepcopy(v)) for k, v in model.items())
    kind = op[0]
    if kind in ('set', 'upd', 'del', 'pop', 'setdef', 'clear'):
        A.model_write(m, op, keys, vals)
    elif kind in ('dump', 'sync'):
        for i, j in op[1]:
            m[keys[i]] = copy.deepcopy(vals[j])
    elif kind == 'dumpk':
        pending = {}
        for i, j in op[1]:
            pending[keys[i]] = vals[j]
        for i in op[2]:
            if keys[i] in pending:
                m[keys[i]] = copy.deepcopy(pending[keys[i]])
    elif kind == 'open_seed':
        for i, j in op[1]:
            m[keys[i]] = copy.deepcopy(vals[j])
    elif kind in ('open', 'open_cached'):
        pass
    elif kind == 'popitem':
        return None
    return m


def verify(cfg, root):
    """in a new process: what a user sees"""
    out = {}
    try:
        a = A.open_archive(cfg, root, 'A')
    except BaseException as e:
        return {'open': 'raised %s: %r' % (type(e).__name__, e)}
    out['items'] = A.observe(a)
    try:
        out['len'] = len(a)
        out['keys'] = list(a.keys())
    except BaseException as e:
        out['lenkeys_exc'] = '%s: %r' % (type(e).__name__, e)
    try:
        out['asdict'] = a.__asdict__()
    except BaseException as e:
        out['asdict_exc'] = '%s: %r' % (type(e).__name__, e)
    try:
        c = A.open_archive(cfg, root, 'A', cached=True)
        c.load()
        out['load'] = dict(c)
    except BaseException as e:
        out['load_exc'] = '%s: %r' % (type(e).__name__, e)
    return out


def judge(tag, opk, obs, S0, S1, popitem, where):
    """old-or-new predicate; returns Discrepancy or None"""
    if 'open' in obs:
        return Discrepancy('C13/%s/%s/reopen-raised' % (tag, opk), '%s: %s' % (where, obs['open']))
    it = obs['items']
    if it[0] != 'ok':
        return Discrepancy('C13/%s/%s/items-raised/%s' % (tag, opk, it[1]), '%s: %s' % (where, it[2]))
    C = it[1]
    for name in ('lenkeys_exc', 'asdict_exc', 'load_exc'):
        if name in obs:
            return Discrepancy('C13/%s/%s/%s' % (tag, opk, name.replace('_exc', '-raised')), '%s: %s' % (where, obs[name]))
    if obs['len'] != len(C) or not A.same_multiset(obs['keys'], list(C)) or not A.exact(obs['asdict'], C) or not A.exact(obs['load'], C):
        return Discrepancy('C13/%s/%s/views-disagree' % (tag, opk), '%s: items %s, len %r, keys %r, asdict %r, load %r' % (where, A.describe(C), obs['len'], obs['keys'], obs['asdict'], obs['load']))
    if popitem:
        missing = [k for k in S0 if k not in C]
        extra = [k for k in C if k not in S0]
        bad = [k for k in C if k in S0 and not A.exact(C[k], S0[k])]
        if extra:
            return Discrepancy('C13/%s/%s/phantom-key' % (tag, opk), '%s: %r never stored; sees %s' % (where, extra, A.describe(C)))
        if bad or len(missing) > 1:
            return Discrepancy('C13/%s/%s/untouched-key-changed' % (tag, opk), '%s: sees %s, before %s' % (where, A.describe(C), A.describe(S0)))
        return None
    allk = []
    for k in list(S0) + list(S1) + list(C):
        if not any(A.exact(k, x) for x in allk):
            allk.append(k)

    def look(d, k):
        for x in d:
            if A.exact(x, k):
                return (True, d[x])
        return (False, None)
    for k in allk:
        in0, v0 = look(S0, k)
        in1, v1 = look(S1, k)
        inc, vc = look(C, k)
        if not in0 and not in1:
            return Discrepancy('C13/%s/%s/phantom-key' % (tag, opk), '%s: key %r was never stored; new process sees %s (before %s, after %s)' % (where, k, A.describe(C), A.describe(S0), A.describe(S1)))
        touched = (in0 != in1) or (in0 and not A.exact(v0, v1))
        ok_old = (inc == in0) and (not inc or A.exact(vc, v0))
        ok_new = (inc == in1) and (not inc or A.exact(vc, v1))
        if touched:
            if not (ok_old or ok_new):
                what = 'touched-key-lost' if not inc else 'touched-key-torn-value'
                return Discrepancy('C13/%s/%s/%s' % (tag, opk, what), '%s: key %r: new process sees %s; before %s, after %s' % (
                    where, k, ('%r' % (vc,)) if inc else 'nothing', ('%r' % (v0,)) if in0 else 'absent', ('%r' % (v1,)) if in1 else 'absent'))
        elif not ok_old:
            what = 'untouched-key-lost' if not inc else 'untouched-key-changed'
            return Discrepancy('C13/%s/%s/%s' % (tag, opk, what), '%s: key %r (not touched by the operation): new process sees %s, stored %r; whole view %s' % (
                where, k, ('%r' % (vc,)) if inc else 'nothing', v0, A.describe(C)))
    return None


def run_case(case):
    base = tempfile.mkdtemp(prefix='c13_', dir=_tmproot())
    other = other_filesystem_dir(base) if case.get('tmp_elsewhere') else None
    _ELSEWHERE['dir'] = other
    _SEEDED['on'] = bool(case.get('seeded_rng'))
    try:
        out, nt, classes = _run(case, base)
        if case.get('tmp_elsewhere'):
            classes.append('tmpdir_on_other_fs' if other else 'other_fs_unavailable')
        if case.get('seeded_rng'):
            classes.append('user_seeds_global_rng')
        return out, nt, classes
    finally:
        _SEEDED['on'] = False
        _ELSEWHERE['dir'] = None
        shutil.rmtree(base, ignore_errors=True)
        if other:
            shutil.rmtree(other, ignore_errors=True)


def enumerate_crashes(cfg, tmpl, base, S0, op, keys, vals, classes, nts, tagprefix='', label=''):
    """dry run + every kill point of op on a copy of tmpl; returns (Discrepancy | None, runs)"""
    opk = op[0]
    S1 = expected_after(S0, op, keys, vals)
    popitem = opk == 'popitem'
    nonempty = bool(S0)
    sub = tempfile.mkdtemp(prefix='e_', dir=base)
    d0 = os.path.join(sub, 'D0')
    shutil.copytree(tmpl, d0)
    dry = shim.run_armed(lambda: perform(cfg, d0, op, keys, vals), d0, kill_at=0, log=True)
    if dry['status'] == 'raised':
        return Discrepancy('C13/%s%s/%s/operation-raised-without-crash' % (tagprefix, cfg, opk), label + dry['error'] + '\n' + dry.get('trace', '')), 1
    n = dry['events']
    log = dry['log']
    obs = procs.in_fork(lambda: verify(cfg, d0))
    d = judge(cfg, opk, obs, S0 if popitem else S1, S0 if popitem else S1, popitem, label + 'after the complete operation (no crash)')
    if d is not None:
        d.sig = d.sig.replace('C13/', 'C13/%snocrash/' % tagprefix, 1)
        return d, 1
    shutil.rmtree(d0, ignore_errors=True)
    runs = 1
    for k in range(1, n + 1):
        ev = log[k - 1] if k - 1 < len(log) else (k, '?', '?')
        modes = [0]
        if ev[1] in ('write', 'pwrite', 'writev'):
            modes += [1, 2]
        for fm in modes:
            dk = os.path.join(sub, 'D%d_%d' % (k, fm))
            shutil.copytree(tmpl, dk)
            r = shim.run_armed(lambda: perform(cfg, dk, op, keys, vals), dk, kill_at=k, frac_mode=fm)
            runs += 1
            where = label + 'killed before mutating call %d/%d (%s %s)%s' % (k, n, ev[1], _short(ev[2]), {0: '', 1: ' after half of its bytes', 2: ' after all but one byte'}[fm])
            if r['status'] == 'raised':
                return Discrepancy('C13/%s%s/%s/operation-raised-in-crash-run' % (tagprefix, cfg, opk), where + ': ' + r['error']), runs
            obs = procs.in_fork(lambda: verify(cfg, dk))
            d = judge(cfg, opk, obs, S0, S1 if S1 is not None else S0, popitem, where)
            classes.append('event:' + ev[1])
            if fm:
                classes.append('partial_write')
            if r['status'] == 'done':
                classes.append('count_drift')     # fewer events than in the dry run (kept as a guard)
            if d is not None:
                d.sig = d.sig.replace('C13/', 'C13/%s' % tagprefix, 1) + '/at:' + _evclass(ev)
                return d, runs
            if nonempty and k > 1:
                nts.append((tagprefix, cfg, opk, ev[1], k, n, fm))
            shutil.rmtree(dk, ignore_errors=True)
    shutil.rmtree(sub, ignore_errors=True)
    return None, runs


def _run(case, base):
    cfg, op = case['cfg'], case['op']
    opk = op[0]
    gen2 = 'op2' in case
    classes = ['cfg:' + cfg, 'op:' + (opk if not gen2 else 'gen2')]
    keys = [A.build_key(s) for s in case['keys']]
    vals = [V.build(s) for s in case['vals']]
    tmpl = os.path.join(base, 'T')
    os.makedirs(tmpl)
    S0 = {}
    # ---- prior state (unarmed, in a child so that no handle of this process points into the template)
    if case['prior']:
        def mk():
            a = A.open_archive(cfg, tmpl, 'A')
            for p in case['prior']:
                A.apply_write(a, p, keys, vals)
            return None
        procs.in_fork(mk)
        for p in case['prior']:
            A.model_write(S0, p, keys, vals)
    if S0:
        classes.append('nonempty_prior')
    nts = Multi()
    out = []
    if not gen2:
        d, runs = enumerate_crashes(cfg, tmpl, base, S0, op, keys, vals, classes, nts)
        if d is not None:
            out.append(d)
        classes.append('crash_runs:%d' % min(runs // 10 * 10, 60))
        nts.evals = runs
        return out, nts, classes
    # ---- second generation: crash op1 once at a drawn point, then treat the debris as the prior state of op2
    d1 = os.path.join(base, 'G1')
    shutil.copytree(tmpl, d1)
    dry = shim.run_armed(lambda: perform(cfg, d1, op, keys, vals), d1, kill_at=0)
    shutil.rmtree(d1, ignore_errors=True)
    if dry['status'] != 'done' or dry['events'] < 1:
        nts.evals = 1
        return out, nts, classes
    k1 = 1 + case['k1'] % dry['events']
    shutil.copytree(tmpl, d1)
    r = shim.run_armed(lambda: perform(cfg, d1, op, keys, vals), d1, kill_at=k1, log=True)
    where1 = 'generation 1: %r killed before mutating call %d/%d; ' % (op, k1, dry['events'])
    obs = procs.in_fork(lambda: verify(cfg, d1))
    S1 = expected_after(S0, op, keys, vals)
    d = judge(cfg, opk, obs, S0, S1 if S1 is not None else S0, opk == 'popitem', where1)
    runs = 2
    if d is not None:
        out.append(d)
        nts.evals = runs
        return out, nts, classes
    C1 = dict(obs['items'][1])
    if case['prior2']:
        def mk2():
            if _SEEDED['on']:
                import random
                random.seed(20240229)
            a = A.open_archive(cfg, d1, 'A')
            for p in case['prior2']:
                A.apply_write(a, p, keys, vals)
        procs.in_fork(mk2)
        for p in case['prior2']:
            A.model_write(C1, p, keys, vals)
        classes.append('gen2_with_ops_between')
    classes.append('gen2_k1:%s' % ('inside' if 1 < k1 else 'first'))
    d, r2 = enumerate_crashes(cfg, d1, base, C1, case['op2'], keys, vals, classes, nts, tagprefix='gen2/', label=where1 + 'then %r; generation 2: ' % (case['prior2'],))
    if d is not None:
        out.append(d)
    nts.evals = runs + r2
    return out, nts, classes


def _short(p):
    return '/'.join(p.split(' -> ')[0].split('/')[-2:]) + ((' -> ' + '/'.join(p.split(' -> ')[1].split('/')[-2:])) if ' -> ' in p else '')


def _evclass(ev):
    p = ev[2]
    tgt = 'staging' if '.I_' in p.split(' -> ')[0] else 'entry'
    return '%s-%s' % (ev[1], tgt)


def extra_passes(run, tier, i, n):
    """thorough tier, shard 0: cross-check the interposed call set against strace (tools/strace_guard.py): a hole in the shim would make the
    crash enumeration silently coarser than claimed, so a mismatch is a harness error (exit 2), not a pass"""
    if tier != 'thorough' or i != 0:
        return
    import importlib.util
    spec = importlib.util.spec_from_file_location('strace_guard', os.path.join(os.path.dirname(os.path.dirname(os.path.abspath(__file__))), 'tools', 'strace_guard.py'))
    sg = importlib.util.module_from_spec(spec)
    spec.loader.exec_module(sg)
    total = 0
    for cfg in CONFIGS:
        counts, problems = sg.check(cfg)
        if problems:
            raise HarnessError('vshim does not see every mutating call for %s: %s' % (cfg, problems[:3]))
        total += counts[0]
    run.extra['strace_guard_events_matched_1to1'] = total


REQUIRED_CLASSES = ['op:gen2', 'gen2_with_ops_between', 'nonempty_prior', 'partial_write', 'event:rename', 'event:unlink', 'event:write', 'event:mkdir', 'event:open-w', 'event:close-w', 'event:pwrite'] + \
    ['cfg:' + c for c in CONFIGS] + ['op:' + o for o in set(OPKINDS)]
TRIGGERS = {}
