"""helpers shared by the cache-history property modules"""
from harness import cachehist as H


def has(d, k):
    try:
        return k in d
    except TypeError:
        return False


def base_classes(case):
    km = case.get('keymap')
    return ['algo:' + case['algo'], 'module:' + case['module'], 'backend:' + case['backend'],
            'purge:%r' % case['purge'], 'keymap:%s' % (km['cls'] + ('' if km.get('flat', True) else '-nonflat') + ('-typed' if km.get('typed') else '') if km else 'default'),
            'eff_algo:' + H.effective_algo(case)]


def outcome(s, algo=None):
    """how a completed call was answered, from the observable pre-state.
    For the non-caching decorator every retrieved result is a 'load' (property C15)."""
    if has(s.pre_mem, s.key):
        return 'load' if algo == 'no' else 'hit'
    if s.pre_arch is not None and has(s.pre_arch, s.key):
        return 'load'
    return 'miss'


def unexpected_exc(prop, i, s, out, Discrepancy):
    """a call (or management op) raised although the function itself accepts the call"""
    if s.exc is None:
        return False
    if s.kind == 'call' and s.expected_exc is not None and s.exc is s.expected_exc:
        return False
    out.append(Discrepancy('%s/%s/raised/%s' % (prop, s.kind, H.exc_sig(s.exc)), 'step %d %r raised %r' % (i, s.op, s.exc)))
    return True


def same(a, b):
    """value equality that is also type-exact for scalars (1 vs 1.0 vs True) and containers"""
    if type(a) is not type(b):
        return False
    if isinstance(a, (list, tuple)):
        return len(a) == len(b) and all(same(x, y) for x, y in zip(a, b))
    if isinstance(a, dict):
        return a.keys() == b.keys() and all(same(a[k], b[k]) for k in a)
    return a == b
