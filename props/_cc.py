"""helpers shared by the cache-history property modules"""
from harness import cachehist as H


def has(d, k):
    try:
        return k in d
    except TypeError:
        return False


def base_classes(case):
    km = case.get('keymap')
    return ['algo:' + case['algo'], 'module:' + case['module'], 'backend:' + case['backend'],
            'purge:%r' % case['purge'], 'keymap:%s' % (km['cls'] + ('' if km.get('flat', True) else '-nonflat') + ('-typed' if km.get('typed') else '') if km else 'default'),
            'eff_algo:' + H.effective_algo(case)] + \
        (['relative_dir_archive:' + case['relpath']] + (['chdir_away'] if any(op[0] == 'chdir' and op[1] for op in case['ops']) else []) if case.get('relpath') else [])


def outcome(s, algo=None):
    """how a completed call was answered, from the observable pre-state.
    For the non-caching decorator every retrieved result is a 'load' (property C15)."""
    if has(s.pre_mem, s.key):
        return 'load' if algo == 'no' else 'hit'
    if s.pre_arch is not None and has(s.pre_arch, s.key):
        return 'load'
    return 'miss'


def unexpected_exc(prop, i, s, out, Discrepancy):
    """a call (or management op) raised although the function itself accepts the call"""
    if s.exc is None:
        return False
    if s.kind == 'call' and s.expected_exc is not None and s.exc is s.expected_exc:
        return False
    out.append(Discrepancy('%s/%s/raised/%s' % (prop, s.kind, H.exc_sig(s.exc)), 'step %d %r raised %r' % (i, s.op, s.exc)))
    return True


def same(a, b):
    """value equality that is also type-exact for scalars (1 vs 1.0 vs True) and containers"""
    if type(a) is not type(b):
        return False
    if isinstance(a, (list, tuple)):
        return len(a) == len(b) and all(same(x, y) for x, y in zip(a, b))
    if isinstance(a, dict):
        return a.keys() == b.keys() and all(same(a[k], b[k]) for k in a)
    return a == b


# ---------------------------------------------------------------------------
# bounded-exhaustive complement (thorough tier): ALL histories of length L over a small op alphabet for a grid of configurations

ENUM_OPS = [['call', 0, 0, 1], ['call', 1, 0, 2], ['call', 2, 0, 3], ['dump'], ['load'], ['clear'], ['clearkeep']]


def enum_case(module, algo, ms, purge, backend, seq):
    pool = [{'named': [['x', ['i', j]]]} for j in range(3)]
    return {'module': module, 'algo': algo, 'maxsize': ms, 'ms_pos': False, 'purge': purge, 'keymap': None,
            'backend': backend, 'sig': {'req': ['x']}, 'rmode': 'str', 'pool': pool, 'ops': [list(ENUM_OPS[t]) for t in seq]}


def exhaustive_sweep(run, tier, shard, nshards, checker, L=5):
    """every history of length L over ENUM_OPS for 12 classes x maxsize {1, 2} x purge x {no archive, dict archive};
    checker(case, trace) -> list of discrepancies.  The same oracle as the generated search, on a completely covered small scope."""
    import itertools
    from harness import cachehist as H
    if tier != 'thorough':
        return
    configs = [(m, a, ms, p, b) for m in ('std', 'safe') for a in H.ALGOS for ms in (1, 2) for p in (False, True) for b in ('none', 'cache_dict')
               if not (a in ('no', 'inf') and p)]
    n = 0
    for ci, (m, a, ms, p, b) in enumerate(configs):
        if ci % nshards != shard:
            continue
        for seq in itertools.product(range(len(ENUM_OPS)), repeat=L):
            case = enum_case(m, a, ms, p, b, seq)
            tr = H.run_history(case)
            discrs = checker(case, tr)
            n += 1
            if discrs:
                path = run.write_replay(case, discrs, tag='enum')
                for d in discrs:
                    run.violations.append((d.sig, d.detail, case, path))
                return
    run.evaluations += n
    run.classes['exhaustive_histories_len%d' % L] += n
    run.extra['exhaustive_subspace'] = 'all %d^%d histories over {call k1..k3, dump, load, clear, clear(keepstats)} x %d configurations (12 classes x maxsize 1-2 x purge x none/dict archive)' % (
        len(ENUM_OPS), L, len(configs))
    run.extra['exhaustive_subspace_complete'] = True
