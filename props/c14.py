"""C14 concurrent processes: no lost entries, no phantom or torn reads."""
import os, shutil, tempfile, copy
from hypothesis import strategies as st
from harness import arch as A, values as V, shim, procs, sched
from harness.cachehist import exc_sig, _tmproot
from harness.core import Discrepancy, HarnessError, Multi

PROP = 'C14'
LEVEL = 'exploration'
NEEDS_SHIM = True
RULE = ("cases = archive configuration (dir x {dill, fast, compressed, json, source}, sqlite file, file x {pickle, json, source}) x initial contents (0-3 entries) x "
        "2-3 concurrent operations, each in its own forked process on its own freshly opened handle (the open is part of the scheduled operation): writer/writer "
        "on distinct keys and writer/writer/reader (dir, sqlite), writer(new key)/reader, overwrite/reader, writer/opener (all); in a quarter of the cases (dir, file) all processes share one handle opened before the fork. Readers: d[k], k in d, len(d), "
        "list(d), dict(d.items()), cached load(), load(k). The processes run under the libc interposition shim in step mode: each blocks before every file-system "
        "call under the archive root until the harness grants one step, so the harness owns the schedule. Schedules per case: (a) exhaustively, every atomic "
        "placement of each process at each of the other's event boundaries, (b) generated fine-grained interleavings (lists of process indices; fair completion). "
        "Oracle per observation: no operation fails (KeyError only for a key that was absent at some moment; a loud sqlite 'database is locked' is counted as an "
        "inconclusive schedule); keys seen are keys ever stored and include every key present throughout; each value read was stored for that key; len within "
        "[present throughout, ever stored]; final contents seen by a fresh process = initial contents + all writes. Single-file archive: a reader sees exactly the "
        "earlier or the later dictionary, and after writer and opener have finished the write is there. non-trivial = the schedule switches process strictly "
        "inside both operations; distinct = (config, operation kinds, switch positions)")
ASSUMPTIONS = ['interleavings are explored between libc calls under sequentially consistent file semantics (linux page cache); effects inside one system call are not subdivided',
               'writer/writer on the SAME key, deleters, and two writers on a single-file archive are outside the statement and not generated',
               'sqlite busy retries are turned into yield points; a writer that gives up loudly (database is locked) after waiting, while another process is still active, is inconclusive; giving up WITHOUT waiting, giving up when every other process has finished, or silent loss, is a violation',
               'every schedule is fair and finite (when the generated list is exhausted the remaining processes run round-robin)']

N = {'quick': 6, 'thorough': 400}     # per shard, shared by its strata (quick: 2 cases per (config, scenario) stratum, each ~60 schedules)
SHARDS = {'quick': 13, 'thorough': 16}
MIN_PER_STRATUM = 2
TIME_BUDGET = {'quick': 200, 'thorough': 3000}
DIRLIKE = ['dir_dill', 'dir_fast', 'dir_z', 'dir_json', 'dir_src', 'sql_file']
FILELIKE = ['file_pkl', 'file_json', 'file_src']
CONFIGS = DIRLIKE + FILELIKE
READS = ['get', 'in', 'len', 'list', 'items', 'load', 'loadk']


def small_values(cfg):
    c = A.codec(cfg)
    if c == 'sql':
        return st.one_of(V.ints(), V.strs(False))
    if c in ('json', 'src'):
        return st.one_of(V.ints(), V.strs(False), st.lists(V.ints(), max_size=2).map(lambda xs: ['l', xs]))
    return st.one_of(V.ints(), V.strs(False), st.lists(V.ints(), max_size=2).map(lambda xs: ['l', xs]), st.lists(V.ints(), max_size=2).map(lambda xs: ['t', xs]))


@st.composite
def cases(draw, cfg, scen=None):
    pool = draw(A.key_pools(cfg, n=(3, 5), stable_only=True))
    nk = len(pool)
    vals = draw(st.lists(small_values(cfg), min_size=4, max_size=5, unique_by=repr))
    nv = len(vals)
    ninit = draw(st.integers(0, min(3, nk - 1)))
    init = [[i, draw(st.integers(0, nv - 1))] for i in range(ninit)]
    free = list(range(ninit, nk))
    scen = scen or draw(st.sampled_from(SCENARIOS[cfg]))
    if scen == 'or' and not ninit:
        ninit = 1
        init = [[0, draw(st.integers(0, nv - 1))]]
        free = list(range(ninit, nk))

    def reader(focus):
        if cfg != 'sql_file' and draw(st.booleans()):
            # one reader process doing every kind of read in turn on one handle: each atomic placement then checks all of them at that point of
            # the writer's progress (sqlite keeps single-operation readers: what matters there is the lock state an idle reader is left in)
            return ['multi', draw(st.sampled_from([focus, focus, draw(st.integers(0, nk - 1))])), draw(st.permutations(['get', 'in', 'len', 'list', 'items']))]
        k = draw(st.sampled_from(READS))
        if k in ('get', 'in', 'loadk'):
            return [k, draw(st.sampled_from([focus, focus, draw(st.integers(0, nk - 1))]))]
        return [k]

    def newval(old):
        cands = [j for j in range(nv) if j != old]
        return draw(st.sampled_from(cands))
    parts = []
    if scen == 'linger':
        # sqlite: a reader process does ONE read of a key that has a row history and then stays alive, idle; afterwards a writer stores another key.
        # One schedule per read kind (reader first, completely; then the writer): cheap, and exactly where a lock kept by an idle reader shows
        if not ninit:
            ninit, init = 1, [[0, draw(st.integers(0, nv - 1))]]
            free = list(range(ninit, nk))
        parts = [['get', 0], ['set', free[0], draw(st.integers(0, nv - 1))]]
    elif scen == 'ww':
        a, b = free[0], (free[1] if len(free) > 1 else 0)
        if b == 0 and ninit == 0:
            b = a
        parts = [['set', a, draw(st.integers(0, nv - 1))]]
        if b != a:
            parts.append(['set', b, newval(dict(map(tuple, init)).get(b))])
        else:
            parts.append(reader(a))
    elif scen == 'wr':
        parts = [['set', free[0], draw(st.integers(0, nv - 1))], reader(free[0])]
    elif scen == 'or':
        k = draw(st.integers(0, ninit - 1))
        parts = [['set', k, newval(init[k][1])], reader(k)]
    elif scen == 'wo':
        k = draw(st.sampled_from(free[:1] + list(range(ninit))))
        parts = [['set', k, newval(dict(map(tuple, init)).get(k))], ['open']]
    else:
        a = free[0]
        b = free[1] if len(free) > 1 else None
        parts = [['set', a, draw(st.integers(0, nv - 1))]]
        if b is not None:
            parts.append(['set', b, draw(st.integers(0, nv - 1))])
        elif ninit:
            parts.append(['set', 0, newval(init[0][1])])
        parts.append(reader(a))
    # how a writer stores: item assignment, update({k: v}), or - for a key that is absent before the schedule - setdefault(k, v)
    absent = set(free)
    for p in parts:
        if p[0] == 'set':
            p.append(draw(st.sampled_from(['setitem', 'setitem', 'update'] + (['setdefault', 'setdefault'] if p[1] in absent else []))))
    rnd = [draw(st.lists(st.integers(0, len(parts) - 1), min_size=5, max_size=60)) for _ in range(draw(st.integers(2, 6)))]
    # the processes may also share ONE handle opened before they were forked (a worker pool); sqlite connections must not cross a fork
    shared = cfg != 'sql_file' and draw(st.integers(0, 3)) == 0
    # single-file archives: readers / openers construct the archive object itself in most cases; with the user-level
    # klepto.archives.file_archive(name) every open also runs update({}) = read + re-save, which is the open finding D12f
    lowlevel = cfg in FILELIKE and not shared and draw(st.integers(0, 3)) > 0
    return {'cfg': cfg, 'keys': pool, 'vals': vals, 'init': init, 'parts': parts, 'scen': scen, 'rand': rnd, 'shared': shared, 'lowlevel': lowlevel,
            'seeded_rng': draw(st.integers(0, 2)) == 0}


SCENARIOS = dict((c, ['ww', 'wr', 'or', 'wo', 'wwr'] + (['linger'] if c == 'sql_file' else []) if c in DIRLIKE else ['wr', 'or', 'wo']) for c in CONFIGS)


def strata(tier):
    # sqlite strata get twice the budget: lock states (shared / reserved / pending, busy handling) make its schedule space the richest
    return [('%s/%s' % (c, sc), cases(c, sc), (4 if sc == 'linger' else 2) if c == 'sql_file' else 1) for c in CONFIGS for sc in SCENARIOS[c]]


# ------------------------------------------------------------ participants

_KEEP = []      # handles of a participant stay referenced while its process lingers (a dropped sqlite connection would release its locks)


def participant(cfg, root, op, keys, vals, shared=None, lowlevel=False, seeded=False):
    def fn():
        if seeded:
            import random
            random.seed(20240229)        # every worker process seeds the global generator the same way ('reproducible' workers)
        kind = op[0]
        if kind == 'multi':
            a = A.open_lowlevel(cfg, root, 'A') if lowlevel else (shared if shared is not None else A.open_archive(cfg, root, 'A'))
            _KEEP.append(a)
            return [(k, _read(a, [k, op[1]], keys)) for k in op[2]]
        if lowlevel and kind != 'set':
            a = A.open_lowlevel(cfg, root, 'A')
            if kind in ('load', 'loadk'):
                import klepto.archives as ka
                c = ka.cache(archive=a)
                if kind == 'load':
                    c.load()
                else:
                    c.load(keys[op[1]])
                return dict(c)
            return _read(a, op, keys)
        if kind == 'load' or kind == 'loadk':
            if shared is not None:
                import klepto.archives as ka
                c = ka.cache(archive=shared)
            else:
                c = A.open_archive(cfg, root, 'A', cached=True)
            _KEEP.append(c)
            if kind == 'load':
                c.load()
            else:
                c.load(keys[op[1]])
            return dict(c)
        a = shared if shared is not None else A.open_archive(cfg, root, 'A')
        _KEEP.append(a)
        if kind == 'set':
            how = op[3] if len(op) > 3 else 'setitem'
            if how == 'setdefault':
                a.setdefault(keys[op[1]], vals[op[2]])         # the key is absent when this writer is a 'new key' writer
            elif how == 'update':
                a.update({keys[op[1]]: vals[op[2]]})
            else:
                a[keys[op[1]]] = vals[op[2]]
            return None
        return _read(a, op, keys)
    return fn


def _read(a, op, keys):
    kind = op[0]
    if kind == 'get':
        try:
            return ('value', a[keys[op[1]]])
        except KeyError:
            return ('KeyError',)
    if kind == 'in':
        return keys[op[1]] in a
    if kind == 'len':
        return len(a)
    if kind == 'list':
        return list(a)
    if kind == 'items':
        return dict(a.items())
    if kind == 'open':
        return None
    raise ValueError(kind)


def run_case(case):
    base = tempfile.mkdtemp(prefix='c14_', dir=_tmproot())
    try:
        if case.get('scen') == 'linger':
            out, nts, classes = [], Multi(), []
            nts.evals = 0
            for i, rk in enumerate(READS):
                rop = [rk, 0] if rk in ('get', 'in', 'loadk') else [rk]
                sub = dict(case, parts=[rop, case['parts'][1]], only_sequential=True)
                o, n, c = _run(sub, os.path.join(base, 'L%d' % i))
                out += o
                nts.evals += n.evals
                for x in n:
                    nts.append(x)
                classes += c
                if out:
                    break
            nts.append(('sql_file', 'linger', tuple(case['parts'][1][1:])))
            return out[:1], nts, classes + ['lingering_reader_then_writer']
        return _run(case, base)
    finally:
        shutil.rmtree(base, ignore_errors=True)


def _run(case, base):
    cfg = case['cfg']
    keys = [A.build_key(s) for s in case['keys']]
    vals = [V.build(s) for s in case['vals']]
    parts = case['parts']
    opk = '|'.join(p[0] for p in parts)
    classes = ['cfg:' + cfg, 'scen:' + case['scen']] + (['workers_seed_global_rng_alike'] if case.get('seeded_rng') else []) + ['reader:' + p[0] for p in parts if p[0] in READS or p[0] == 'multi'] + (['shared_handle'] if case.get('shared') else []) + \
        (['file_lowlevel_open'] if case.get('lowlevel') else [])
    I = dict((keys[i], copy.deepcopy(vals[j])) for i, j in case['init'])
    W = {}
    for p in parts:
        if p[0] == 'set':
            W[keys[p[1]]] = vals[p[2]]
            if len(p) > 3:
                classes.append('writer_via:' + p[3])
    tmpl = os.path.join(base, 'T')
    os.makedirs(tmpl)
    only_sequential = bool(case.get('only_sequential'))

    def mk():
        a = A.open_archive(cfg, tmpl, 'A')
        for i, j in case['init']:
            if cfg == 'sql_file':
                a[keys[i]] = vals[(j + 1) % len(vals)]      # the initial entries have a history: the sqlite table keeps superseded rows
            a[keys[i]] = vals[j]
    procs.in_fork(mk)
    nts = Multi()
    nts.evals = 0
    out = []
    counter = [0]

    def one(schedule, label):
        root = os.path.join(base, 'R%d' % counter[0])
        counter[0] += 1
        shutil.copytree(tmpl, root)
        handle = A.open_archive(cfg, root, 'A') if case.get('shared') else None      # opened before the fork, inherited by every participant
        fns = [participant(cfg, root, p, keys, vals, handle, bool(case.get('lowlevel')), bool(case.get('seeded_rng'))) for p in parts]
        # sqlite: the processes stay alive and idle after their operation (connections, and any lock they still hold, stay open)
        results, trace = sched.run(fns, root, schedule, linger=(cfg == 'sql_file'))
        tails = getattr(sched.run, 'last_alone_tails', [0] * len(parts))
        nts.evals += 1
        final = procs.in_fork(lambda: _final(cfg, root))
        d = judge(cfg, case, parts, keys, vals, I, W, results, final, trace, label, tails)
        if isinstance(d, str):
            classes.append(d)        # inconclusive schedule (a loud lock time-out under real contention): recorded, the search goes on
            d = None
        shutil.rmtree(root, ignore_errors=True)
        # switches strictly inside both operations
        order = [t[0] for t in trace]
        switches = [i for i in range(1, len(order)) if order[i] != order[i - 1]]
        inner = False
        if switches:
            first = dict((p, order.index(p)) for p in set(order))
            last = dict((p, len(order) - 1 - order[::-1].index(p)) for p in set(order))
            inner = sum(1 for p in set(order) if any(first[p] < s <= last[p] and order[s] != p for s in switches)) >= 2
        if inner:
            classes.append('interleaved')
            nts.append((cfg, opk, tuple(switches[:12])))
        return d, trace

    # (a) exhaustive atomic placements: learn each participant's event count from a sequential run
    d, trace = one([0] * 5000, 'sequential 0-first')
    counts = [sum(1 for t in trace if t[0] == i) for i in range(len(parts))]
    if d is None and not only_sequential:
        for a in range(len(parts)):
            for b in range(len(parts)):
                if a == b:
                    continue
                rest = [x for x in range(len(parts)) if x not in (a, b)]
                for j in range(0, counts[a] + 1):
                    schedule = [a] * j + [b] * 5000
                    d, _ = one(schedule, 'process %d placed atomically after %d/%d calls of process %d' % (b, j, counts[a], a))
                    classes.append('atomic_placement')
                    if d is not None:
                        break
                if d is not None:
                    break
            if d is not None:
                break
    # (b) generated fine-grained interleavings
    if d is None and not only_sequential:
        for s in case['rand']:
            d, _ = one(list(s), 'generated interleaving %r' % (s,))
            classes.append('random_schedule')
            if d is not None:
                break
    if d is not None:
        if isinstance(d, str):
            classes.append(d)
        else:
            out.append(d)
    return out, nts, classes


def _final(cfg, root):
    try:
        a = A.open_archive(cfg, root, 'A')
    except BaseException as e:
        return ('exc', type(e).__name__, 'open: %r' % e)
    return A.observe(a)


def _in(d, k):
    for x in d:
        if A.exact(x, k):
            return (True, d[x])
    return (False, None)


def judge(cfg, case, parts, keys, vals, I, W, results, final, trace, label, tails=()):
    tag = cfg
    filelike = cfg in FILELIKE
    ever_keys = list(I) + [k for k in W if not _in(I, k)[0]]
    after = dict(I)
    after.update(W)

    def ever(k):
        vs = []
        a, v = _in(I, k)
        if a:
            vs.append(v)
        a, v = _in(W, k)
        if a:
            vs.append(v)
        return vs
    where = '%s; trace %s' % (label, ' '.join('%d:%s' % (t[0], t[2]) for t in trace[:80]))
    locked = False
    for pi, (p, r) in enumerate(zip(parts, results)):
        kind = p[0]
        if r[0] != 'ok':
            if cfg == 'sql_file' and 'locked' in r[2]:
                if pi < len(tails) and tails[pi] >= 30:
                    # every other process had finished its operation and sat idle while this one used up its whole retry budget:
                    # an idle process kept the database locked
                    return Discrepancy('C14/%s/%s/operation-failed/locked-by-an-idle-process' % (tag, kind), '%r raised %s after %d retries with every other process idle (%s)' % (p, r[2], tails[pi], where))
                nsleep = sum(1 for t in trace if t[0] == pi and t[2] == 'sleep')
                if nsleep == 0 and kind == 'set':
                    # sqlite serialises writers through its busy handler (wait and retry); a writer that reports 'locked' without having waited
                    # even once gave up for a protocol reason (e.g. it tried to upgrade a read lock it kept), not because time ran out:
                    # its entry is lost merely because another process was writing ANOTHER key
                    return Discrepancy('C14/%s/%s/operation-failed/locked-without-waiting' % (tag, kind), '%r raised %s without a single wait/retry (%s)' % (p, r[2], where))
                if pi < len(tails) and tails[pi] >= 1 and kind == 'set':
                    # the writer gave up at once (no waiting) at a moment when every other process had already finished its operation: nobody was
                    # competing for the database any more, yet its entry is lost
                    return Discrepancy('C14/%s/%s/operation-failed/locked-with-no-other-process-active' % (tag, kind), '%r raised %s after only %d step(s) taken while every other process had finished (%s)' % (p, r[2], tails[pi], where))
                locked = True
                continue
            return Discrepancy('C14/%s/%s/operation-failed/%s' % (tag, kind, r[1]), '%r raised %s (%s)' % (p, r[2], where))
        if kind == 'multi':
            for sk, sv in r[1]:
                d = judge(cfg, case, [[sk, p[1]]], keys, vals, I, W, [('ok', sv)], None, trace, label, ())
                if d is not None and not isinstance(d, str):
                    return d
            continue
        v = r[1]
        if kind == 'get':
            k = keys[p[1]]
            if v[0] == 'KeyError':
                if _in(I, k)[0]:
                    return Discrepancy('C14/%s/get/present-key-not-found' % tag, 'key %r was present throughout but d[k] raised KeyError (%s)' % (k, where))
            elif not any(A.exact(v[1], x) for x in ever(k)):
                return Discrepancy('C14/%s/get/value-never-stored' % tag, 'd[%r] = %r; stored values %r (%s)' % (k, v[1], ever(k), where))
        elif kind == 'in':
            k = keys[p[1]]
            if _in(I, k)[0] and v is not True:
                return Discrepancy('C14/%s/in/present-key-not-found' % tag, '%r in d is %r though present throughout (%s)' % (k, v, where))
            if not _in(after, k)[0] and v is not False:
                return Discrepancy('C14/%s/in/phantom-key' % tag, '%r in d is %r though never stored (%s)' % (k, v, where))
        elif kind == 'len':
            if not (len(I) <= v <= len(ever_keys)):
                return Discrepancy('C14/%s/len/out-of-range' % tag, 'len %r not in [%d, %d] (%s)' % (v, len(I), len(ever_keys), where))
        elif kind == 'list':
            for k in v:
                if not any(A.exact(k, x) for x in ever_keys):
                    return Discrepancy('C14/%s/list/phantom-key' % tag, 'iteration yields %r, never stored (%s)' % (k, where))
            for k in I:
                if not any(A.exact(k, x) for x in v):
                    return Discrepancy('C14/%s/list/present-key-missing' % tag, 'iteration %r misses %r, present throughout (%s)' % (v, k, where))
        elif kind in ('items', 'load', 'loadk'):
            for k, x in v.items():
                if not any(A.exact(k, y) for y in ever_keys):
                    return Discrepancy('C14/%s/%s/phantom-key' % (tag, kind), '%r never stored; saw %s (%s)' % (k, A.describe(v), where))
                if not any(A.exact(x, y) for y in ever(k)):
                    return Discrepancy('C14/%s/%s/value-never-stored' % (tag, kind), '%r -> %r; stored %r (%s)' % (k, x, ever(k), where))
            if kind != 'loadk':
                for k in I:
                    if not _in(v, k)[0]:
                        return Discrepancy('C14/%s/%s/present-key-missing' % (tag, kind), 'saw %s, misses %r present throughout (%s)' % (A.describe(v), k, where))
                if filelike and not (A.exact(v, I) or A.exact(v, after)):
                    return Discrepancy('C14/%s/%s/neither-earlier-nor-later-dictionary' % (tag, kind), 'saw %s; earlier %s, later %s (%s)' % (A.describe(v), A.describe(I), A.describe(after), where))
            else:
                k = keys[p[1]]
                if _in(I, k)[0] and not _in(v, k)[0]:
                    return Discrepancy('C14/%s/loadk/present-key-missing' % tag, 'load(%r) loaded nothing (%s)' % (k, where))
    if locked:
        return 'inconclusive_locked'
    if final is None:
        return None          # sub-judgement of one read of a compound reader
    if final[0] != 'ok':
        return Discrepancy('C14/%s/final/unreadable/%s' % (tag, final[1]), '%s (%s)' % (final[2], where))
    if not A.exact(final[1], after):
        lost = [k for k in after if not _in(final[1], k)[0] or not A.exact(_in(final[1], k)[1], after[k])]
        what = 'completed-write-lost' if any(_in(W, k)[0] for k in lost) else 'entry-lost-or-corrupted'
        return Discrepancy('C14/%s/final/%s/%s' % (tag, '|'.join(p[0] for p in parts), what), 'fresh process sees %s, expected %s (%s)' % (A.describe(final[1]), A.describe(after), where))
    return None


REQUIRED_CLASSES = ['lingering_reader_then_writer', 'reader:multi', 'writer_via:setdefault', 'writer_via:update', 'file_lowlevel_open', 'shared_handle', 'interleaved', 'atomic_placement', 'random_schedule', 'scen:ww', 'scen:wr', 'scen:or', 'scen:wo', 'scen:wwr'] + ['cfg:' + c for c in CONFIGS] + \
    ['reader:' + r for r in READS]


def _t_file_open(case, discr):
    # every participant opens the archive through klepto.archives.file_archive, i.e. runs update({}) = read + re-save
    return case['cfg'] in FILELIKE and not case.get('lowlevel') and len(case['parts']) >= 2 and any(p[0] == 'set' for p in case['parts'])


TRIGGERS = {'file_concurrent_open': _t_file_open}
