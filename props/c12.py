"""C12 rounding tolerance merges nearby calls but never alters what the function sees."""
import copy
from hypothesis import strategies as st
from harness import cachehist as H, values as V
from harness.core import Discrepancy

PROP = 'C12'
LEVEL = 'exploration'
RULE = ("cases = tol {None, -12..12, 15, 16, 17, 20} x deep x argument structures (floats at depth 0-3 inside lists/tuples/sets/dicts with str and non-str keys, "
        "strings, bytes, ints, bools, None, mixed) passed positionally and by keyword x a second call derived by nudging ONE float across / not "
        "across the rounding boundary, or replaced by its equal-but-differently-typed twin 3/3.0/True (second call through the SAME decorator must be keyed on / receive its own rounded arguments) x path {each of the 12 decorators: key(); klepto.keygen(tol, deep); real calls under raw/string/pickle/md5 "
        "keymaps; the standalone simple/shallow/deep_round decorators}. Oracle = independent 25-line recursive rounder R (built-in round as the scalar "
        "primitive): key_tol(args) == key_tol=None(R(args)) type-exactly; hence pairs share an entry iff R(args1) == R(args2); the function receives "
        "the caller's original objects (identity); a call the function accepts never raises; no float => R(args) == args; standalone decorators hand "
        "R_kind(args) to the function and leave str/bytes intact. non-trivial = a float at depth >= 1, or negative tol, or a non-str dict key, or a pair "
        "that straddles a boundary; distinct = (tol, deep, path, structure skeleton, shares?)")
ASSUMPTIONS = ['nan is not generated (nan != nan)', 'frozensets containing floats are not generated (the statement lists lists, tuples, sets and dicts)',
               'shallow_round on dict arguments: underspecified, either outcome accepted',
               "round() itself is the scalar primitive of both sides: only klepto's traversal is being checked"]

N = {'quick': 1000, 'thorough': 12000}
FUZZ_SECONDS = 180      # thorough tier: coverage-guided campaign over the same strategy and oracle (tools/fuzz.py)
SHARDS = {'quick': 4, 'thorough': 16}

TOLS = [None, 0, 1, 2, -1, 3, -2, 6, 12, -12, -3, 15, 16, 17, 20]      # tol counts DECIMALS: 16+ still rounds 0.1+0.2 to 0.3 and 1e-17 to 0.0
PATHS = ['key', 'keygen', 'call', 'standalone']


# ------------------------------------------------------------ reference rounder (never calls klepto)

def R_deep(x, tol):
    if isinstance(x, float):
        return round(x, tol)
    if isinstance(x, (str, bytes)):
        return x
    if isinstance(x, dict):
        # a dict subclass (OrderedDict, defaultdict, Counter): which mapping type the rounded copy has is not specified, its items are
        return dict((k, R_deep(v, tol)) for k, v in x.items())
    if isinstance(x, tuple) and hasattr(x, '_fields'):
        return type(x)(*[R_deep(e, tol) for e in x])          # namedtuple: same type, rounded fields
    if isinstance(x, (list, tuple, set, frozenset)):
        return type(x)(R_deep(e, tol) for e in x)
    return x            # everything else (range, ...) holds no float to round: unchanged


def R_top(x, tol):
    return round(x, tol) if isinstance(x, float) else x


def R_shallow(x, tol):
    """one level into list/tuple/set (the standalone shallow_round)"""
    if isinstance(x, float):
        return round(x, tol)
    if isinstance(x, tuple) and hasattr(x, '_fields'):
        return type(x)(*[R_top(e, tol) for e in x])
    if isinstance(x, (list, tuple, set)):
        return type(x)(R_top(e, tol) for e in x)
    return x


def R_call(args, kwds, tol, kind):
    if tol is None:
        return tuple(args), dict(kwds)
    fn = {'deep': R_deep, 'simple': R_top, 'shallow': R_shallow}[kind]
    return tuple(fn(a, tol) for a in args), dict((k, fn(v, tol)) for k, v in kwds.items())


def exact(a, b):
    """deep, type-exact equality (1 vs 1.0 differ; set element types compared as multisets)"""
    if isinstance(a, dict) and isinstance(b, dict) and type(a) is not type(b):
        # plain dict vs dict subclass with the same items: accepted (underspecified), contents compared below
        pass
    elif type(a) is not type(b):
        return False
    if isinstance(a, (list, tuple)):
        return len(a) == len(b) and all(exact(x, y) for x, y in zip(a, b))
    if isinstance(a, dict):
        if len(a) != len(b):
            return False
        for k, v in a.items():
            hit = [kk for kk in b if type(kk) is type(k) and kk == k]
            if not hit or not exact(v, b[hit[0]]):
                return False
        return True
    if isinstance(a, (set, frozenset)):
        return a == b and sorted(type(x).__name__ + repr(x) for x in a) == sorted(type(x).__name__ + repr(x) for x in b)
    if isinstance(a, float):
        return a == b and str(a) == str(b)
    return a == b


# ------------------------------------------------------------ generation

FL = [0.5, 1.5, 2.5, 2.54, 2.46, 2.449, 0.125, 2.675, 1234.5678, -0.5, 14.9, 15.1, 0.05, 0.049, 1.0, 3.14159, 149.99, 150.0, 1e10, 0.30000000000000004, 5e-324, -0.0, 1e-17, 3e-17, 2.5e-16, 0.7999999999999999, 1.0000000000000002]


def floatspecs():
    # one in eight is an instance of a float SUBCLASS (numpy.float64 is one): isinstance(x, float) holds, type(x) is float does not
    return st.tuples(st.one_of(st.sampled_from(FL), st.floats(min_value=-1e4, max_value=1e4, allow_nan=False, width=64)), st.integers(0, 7)).map(
        lambda t: ['c' if t[1] == 0 else 'f', repr(float(t[0]))])


def structures():
    # class objects and objects that have a length but are not iterable: data that only LOOKS like a container
    odd = st.one_of(st.sampled_from(['list', 'dict', 'str', 'tuple', 'float']).map(lambda n: ['T', n]), st.integers(0, 2).map(lambda n: ['Y', n]))
    leaf = st.one_of(floatspecs(), floatspecs(), V.ints(), V.strs(False), V.NONE, V.BOOLS, V.bytess(2), odd)
    hk = st.one_of(V.strs(False), V.ints(), floatspecs())

    def ext(ch):
        return st.one_of(
            st.lists(ch, max_size=3).map(lambda xs: ['t', xs]),
            st.lists(ch, max_size=3).map(lambda xs: ['l', xs]),
            st.tuples(st.one_of(floatspecs(), V.ints()), st.one_of(floatspecs(), V.ints())).map(lambda xy: ['N', list(xy)]),      # namedtuple
            st.integers(0, 4).map(lambda n: ['G', n]),                                                                               # range
            st.lists(st.one_of(floatspecs(), V.ints(), V.strs(False)), max_size=3).map(lambda xs: ['S', xs]),
            st.lists(st.tuples(V.strs(False), ch), max_size=3).map(lambda kvs: ['d', [list(kv) for kv in kvs]]),
            st.lists(st.tuples(hk, ch), max_size=2).map(lambda kvs: ['d', [list(kv) for kv in kvs]]),
            st.tuples(st.sampled_from(['ordered', 'default', 'counter']), st.lists(st.tuples(V.strs(False), st.one_of(floatspecs(), V.ints())), max_size=2, unique_by=lambda kv: repr(kv[0]))).map(
                lambda t: ['D', t[0], [list(kv) for kv in t[1]]]))
    return st.recursive(leaf, ext, max_leaves=6)


def float_paths(spec, path=()):
    out = []
    t = spec[0]
    if t in 'fc':
        out.append(path)
    elif t in 'tlSN':
        for i, x in enumerate(spec[1]):
            out += float_paths(x, path + (i,))
    elif t == 'd':
        for i, (k, v) in enumerate(spec[1]):
            out += float_paths(v, path + (i, 1))
    elif t == 'D':
        for i, (k, v) in enumerate(spec[2]):
            out += float_paths(v, path + (i, 1))
    return out


def nudge(spec, path, delta):
    """copy of spec with the float at path shifted by delta"""
    if not path:
        return [spec[0], repr(float(spec[1]) + delta)]
    t, p = spec[0], path[0]
    if t == 'd':
        items = [list(kv) for kv in spec[1]]
        k, v = items[p]
        items[p] = [k, nudge(v, path[2:], delta)]
        return ['d', items]
    if t == 'D':
        items = [list(kv) for kv in spec[2]]
        k, v = items[p]
        items[p] = [k, nudge(v, path[2:], delta)]
        return ['D', spec[1], items]
    xs = list(spec[1])
    xs[p] = nudge(xs[p], path[1:], delta)
    return [t, xs]


def twin_paths(spec, path=()):
    """paths to leaves that have an equal-but-differently-typed twin (3 / 3.0 / True)"""
    out = []
    t = spec[0]
    if t in 'iB' or (t == 'f' and float(spec[1]).is_integer() and abs(float(spec[1])) < 1e6):
        out.append(path)
    elif t in 'tlN':
        for i, x in enumerate(spec[1]):
            out += twin_paths(x, path + (i,))
    elif t == 'd':
        for i, (k, v) in enumerate(spec[1]):
            out += twin_paths(v, path + (i, 1))
    return out


def twinify(spec, path):
    if not path:
        t = spec[0]
        if t == 'i':
            return ['f', repr(float(spec[1]))]
        if t == 'B':
            return ['i', int(spec[1])]
        return ['i', int(float(spec[1]))]
    t, p = spec[0], path[0]
    if t == 'd':
        items = [list(kv) for kv in spec[1]]
        k, v = items[p]
        items[p] = [k, twinify(v, path[2:])]
        return ['d', items]
    xs = list(spec[1])
    xs[p] = twinify(xs[p], path[1:])
    return [t, xs]


@st.composite
def cases(draw, path, module=None, algo=None):
    tol = draw(st.sampled_from(TOLS))
    deep = draw(st.booleans())
    nargs = draw(st.integers(0, 3))
    args = [draw(structures()) for _ in range(nargs)]
    kws = [[n, draw(structures())] for n in draw(st.lists(st.sampled_from(['p', 'q', 'r', 'tol', 'deep']), unique=True, max_size=2))]      # 'tol' / 'deep': names klepto uses itself
    if not args and not kws:
        args = [draw(floatspecs())]
    # a one-shot iterator passed at top level (positionally or by keyword): rounding must leave it alone - the function receives it unconsumed
    if draw(st.integers(0, 7)) == 0:
        it = ['Z', [draw(floatspecs()) for _ in range(draw(st.integers(1, 3)))]]
        if draw(st.booleans()):
            kws = [kv for kv in kws if kv[0] != 'r'] + [['r', it]]
        else:
            args = args + [it]
    # the SAME container object reachable twice in one call - f(p, p), f([p, p]), f(p, q=p): each occurrence is rounded
    alias = None
    if args and args[0][0] in 'tld' and draw(st.integers(0, 4)) == 0:
        alias = draw(st.sampled_from(['args', 'nested', 'kw']))
        if alias == 'args':
            args = [args[0], copy.deepcopy(args[0])] + args[2:]
        elif alias == 'nested':
            args = [['l', [args[0], copy.deepcopy(args[0])]]] + args[1:]
        else:
            kws = [['p', copy.deepcopy(args[0])]] + [kv for kv in kws if kv[0] != 'p']
    # second call: nudge one float
    where = [('a', i, p) for i, a in enumerate(args) for p in float_paths(a)] + [('k', i, p) for i, (n, v) in enumerate(kws) for p in float_paths(v)]
    args2, kws2 = copy.deepcopy(args), copy.deepcopy(kws)
    nudged = None
    twins = [('a', i, p) for i, a in enumerate(args) for p in twin_paths(a)] + [('k', i, p) for i, (n, v) in enumerate(kws) for p in twin_paths(v)]
    twin = bool(twins) and draw(st.integers(0, 3)) == 0
    if twin:
        # second call: the same values, one of them as its equal-but-differently-typed twin (3 -> 3.0, True -> 1): rounding changes floats only,
        # and what the second call is keyed on / receives must not depend on the first call having been made
        w, i, p = twins[draw(st.integers(0, len(twins) - 1))]
        if w == 'a':
            args2[i] = twinify(args[i], p)
        else:
            kws2[i][1] = twinify(kws[i][1], p)
    elif where:
        w, i, p = where[draw(st.integers(0, len(where) - 1))]
        scale = 10.0 ** (-(tol if tol is not None else 0))
        delta = draw(st.sampled_from([0.4, -0.4, 0.6, -0.6, 0.04, 1.0, 0.5, 1e-9])) * scale
        if w == 'a':
            args2[i] = nudge(args[i], p, delta)
        else:
            kws2[i][1] = nudge(kws[i][1], p, delta)
        nudged = [w, i, len(p)]
    case = {'tol': tol, 'deep': deep, 'args': args, 'kws': kws, 'args2': args2, 'kws2': kws2, 'nudged': nudged, 'twin': twin, 'alias': alias, 'path': path,
            'module': module or draw(st.sampled_from(['std', 'safe'])), 'algo': algo or draw(st.sampled_from(H.ALGOS + H.DISPATCHED + ['lru:0', 'rr:0'])),
            'named': draw(st.booleans()),
            'keymap': draw(st.sampled_from([{'cls': 'picklemap', 'opt': None, 'flat': True}, {'cls': 'picklemap', 'opt': None, 'flat': False},
                                            {'cls': 'stringmap', 'opt': 'repr', 'flat': True}, {'cls': 'hashmap', 'opt': 'md5', 'flat': False},
                                            {'cls': 'picklemap', 'opt': 'dill', 'flat': True}])),
            'standalone': draw(st.sampled_from(['simple', 'shallow', 'deep']))}
    return case


def strata(tier):
    # the real-call path is stratified over module x algorithm: each of the 12 wrappers has its own copy of the rounding / keying lines
    out = [('path:' + p, cases(p)) for p in PATHS if p != 'call']
    for m in ('std', 'safe'):
        for a in H.ALGOS:
            if a != 'no':
                out.append(('path:call/%s/%s' % (m, a), cases('call', m, a)))
    out.append(('path:call/dispatched', cases('call')))
    return out


# ------------------------------------------------------------ execution

def make_fn(case, log):
    """def f(*args, **kwds) or def f(x0, x1, ..., *, p=.., q=..) receiving exactly the generated call"""
    if case['named']:
        names = ['x%d' % i for i in range(len(case['args']))]
        kwn = [n for n, _ in case['kws']]
        src = 'def f(%s):\n    _log.append((( %s), dict(%s)))\n    return len(_log)\n' % (
            ', '.join(names + ['%s=None' % n for n in kwn]), ''.join(n + ', ' for n in names), ', '.join('%s=%s' % (n, n) for n in kwn))
    else:
        src = 'def f(*args, **kwds):\n    _log.append((args, kwds))\n    return len(_log)\n'
    ns = {'_log': log}
    exec(compile(src, '<generated>', 'exec'), ns)
    return ns['f']


def skeleton(spec):
    t = spec[0]
    if t in 'tlSN':
        return t + '(' + ''.join(skeleton(x) for x in spec[1]) + ')'
    if t == 'd':
        return 'd(' + ''.join(k[0] + ':' + skeleton(v) for k, v in spec[1]) + ')'
    if t == 'D':
        return 'D%s(' % spec[1][0] + ''.join(k[0] + ':' + skeleton(v) for k, v in spec[2]) + ')'
    return t


def has_dict_subclass(spec):
    t = spec[0]
    if t == 'D':
        return True
    if t in 'tlSN':
        return any(has_dict_subclass(x) for x in spec[1])
    if t == 'd':
        return any(has_dict_subclass(v) for _, v in spec[1])
    return False


def has_multiset(spec):
    t = spec[0]
    if t == 'D':
        return False
    if t == 'S':
        return len(spec[1]) > 1
    if t in 'tlN':
        return any(has_multiset(x) for x in spec[1])
    if t == 'd':
        return any(has_multiset(v) for _, v in spec[1])
    return False


def has_nonstr_dictkey(spec):
    t = spec[0]
    if t == 'D':
        return False
    if t == 'd':
        return any(k[0] != 's' or has_nonstr_dictkey(v) for k, v in spec[1])
    if t in 'tlSN':
        return any(has_nonstr_dictkey(x) for x in spec[1])
    return False


def run_case(case):
    import klepto
    from klepto.keymaps import keymap as rawmap
    out = []
    tol, deep = case['tol'], case['deep']
    kind = 'deep' if deep else 'simple'
    a1 = tuple(V.build(s) for s in case['args'])
    k1 = dict((n, V.build(s)) for n, s in case['kws'])
    if case.get('alias') == 'args':
        a1 = (a1[0], a1[0]) + a1[2:]
    elif case.get('alias') == 'nested':
        a1 = ([a1[0][0], a1[0][0]],) + a1[1:]
    elif case.get('alias') == 'kw':
        k1 = dict(k1, p=a1[0])
    a2 = tuple(V.build(s) for s in case['args2'])
    k2 = dict((n, V.build(s)) for n, s in case['kws2'])
    # the second call repeats the object sharing where its specs are still equal (keys built by a real pickler depend on which argument objects
    # are identical - open finding D25 under C09 - and that is not what this property is about)
    if case.get('alias') == 'args' and case['args2'][0] == case['args2'][1]:
        a2 = (a2[0], a2[0]) + a2[2:]
    elif case.get('alias') == 'nested' and case['args2'][0][1][0] == case['args2'][0][1][1]:
        a2 = ([a2[0][0], a2[0][0]],) + a2[1:]
    elif case.get('alias') == 'kw' and dict((n, v) for n, v in case['kws2']).get('p') == case['args2'][0]:
        k2 = dict(k2, p=a2[0])
    specs = list(case['args']) + [v for _, v in case['kws']]
    maxdepth = max([len(p) for s in specs for p in float_paths(s)] or [-1])
    classes = ['path:' + case['path'], 'tol:%r' % (tol,), 'deep:%s' % deep, 'floatdepth:%d' % min(maxdepth, 3)]
    nonstr = any(has_nonstr_dictkey(s) for s in specs)
    if nonstr:
        classes.append('nonstr_dict_key')
    if any(has_dict_subclass(s) for s in specs):
        classes.append('dict_subclass')
    log = []
    fn = make_fn(case, log)
    path = case['path']
    tag = '%s/%s' % (path, 'deep' if deep else 'shallow')
    Ra1, Rk1 = R_call(a1, k1, tol, kind)
    Ra2, Rk2 = R_call(a2, k2, tol, kind)
    shares = exact(Ra1, Ra2) and exact(Rk1, Rk2)
    classes.append('pair_shares' if shares else 'pair_differs')
    try:
        if path in ('key', 'keygen'):
            km = rawmap(flat=False)
            if path == 'key':
                cls = H.decorator_class(case['module'], case['algo'])
                ft = cls(keymap=km, tol=tol, deep=deep)(fn)
                fn0 = cls(keymap=rawmap(flat=False))(fn)
                kt = ft.key(*a1, **k1)
                kr = fn0.key(*Ra1, **Rk1)
                kt2 = ft.key(*a2, **k2)
                kr2 = fn0.key(*Ra2, **Rk2)
            else:
                ft = klepto.keygen(keymap=km, tol=tol, deep=deep)(fn)
                fn0 = klepto.keygen(keymap=rawmap(flat=False))(fn)
                kt = ft(*a1, **k1)
                kr = fn0(*Ra1, **Rk1)
                kt2 = ft(*a2, **k2)
                kr2 = fn0(*Ra2, **Rk2)
            if exact(kt, kr) and not exact(kt2, kr2):
                out.append(Discrepancy('C12/%s/second-key-differs-from-reference-rounding' % tag,
                                       'tol=%r deep=%r after keying %r %r: args=%r kwds=%r: key %r ; reference rounding gives %r' % (tol, deep, a1, k1, a2, k2, kt2, kr2)))
            if not exact(kt, kr):
                out.append(Discrepancy('C12/%s/key-differs-from-reference-rounding' % tag,
                                       'tol=%r deep=%r args=%r kwds=%r: key %r ; reference rounding gives %r' % (tol, deep, a1, k1, kt, kr)))
            if log:
                out.append(Discrepancy('C12/%s/key-evaluated-function' % tag, ''))
        elif path == 'call':
            km = H.make_keymap(dict(case['keymap'], typed=False, sentinel=False))
            f = H.decorator_class(case['module'], case['algo'])(keymap=km, tol=tol, deep=deep)(fn)
            f(*a1, **k1)
            n1 = len(log)
            f(*a2, **k2)
            n2 = len(log)
            if n1 != 1:
                out.append(Discrepancy('C12/%s/first-call-evaluations' % tag, '%d' % n1))
            else:
                ra, rk = log[0]
                if len(ra) != len(a1) or any(x is not y for x, y in zip(ra, a1)) or set(rk) != set(k1) or any(rk[n] is not k1[n] for n in k1):
                    out.append(Discrepancy('C12/%s/function-did-not-receive-original-arguments' % tag,
                                           'tol=%r deep=%r: passed %r %r, function received %r %r' % (tol, deep, a1, k1, ra, rk)))
            multiset = any(has_multiset(x) for x in specs + list(case['args2']) + [v for _, v in case['kws2']])
            if any(sp[0] == 'Z' for sp in specs):
                multiset = True       # two iterator objects are neither equal nor unequal by value: whether the calls share an entry says nothing about rounding
            if multiset:
                classes.append('sharing_not_asserted_sets')   # repr order of a set with >1 element is not a rounding matter
            pickled_identity = bool(case.get('alias')) and case['keymap']['cls'] == 'picklemap' and case['keymap'].get('opt') is not None
            if pickled_identity:
                # keys made by a real pickler record which objects inside the arguments are identical (open finding D25, C09): with the same object
                # passed twice in one of the two calls, whether they share an entry is not a rounding matter
                classes.append('sharing_not_asserted_pickled_identity')
            if case['algo'] != 'no' and not case['algo'].endswith(':0') and not out and not multiset and not pickled_identity:
                evaluated_again = (n2 - n1) == 1
                if shares and evaluated_again:
                    out.append(Discrepancy('C12/%s/same-rounding-not-shared' % tag, 'tol=%r deep=%r: %r %r and %r %r round to the same values but were computed separately' % (tol, deep, a1, k1, a2, k2)))
                if not shares and not evaluated_again:
                    out.append(Discrepancy('C12/%s/different-rounding-shared' % tag, 'tol=%r deep=%r: %r %r and %r %r round differently (%r %r vs %r %r) but share an entry' % (
                        tol, deep, a1, k1, a2, k2, Ra1, Rk1, Ra2, Rk2)))
        else:
            sk = case['standalone']
            dec = {'simple': klepto.rounding.simple_round, 'shallow': klepto.rounding.shallow_round, 'deep': klepto.rounding.deep_round}[sk]
            g = dec(tol=tol)(fn)
            tag = 'standalone/' + sk
            g(*a1, **k1)
            if len(log) != 1:
                out.append(Discrepancy('C12/%s/evaluations' % tag, '%d' % len(log)))
            else:
                ra, rk = log[0]
                ea, ek = R_call(a1, k1, tol, sk)
                ok = exact(tuple(ra), ea) and exact(dict(rk), ek)
                if not ok and sk == 'shallow':
                    # dict arguments are underspecified for shallow_round: accept 'unchanged' or 'values rounded' per dict argument
                    def lenient(x, y, orig):
                        if isinstance(orig, dict):
                            return exact(x, orig) or exact(x, dict((k, R_top(v, tol)) for k, v in orig.items()))
                        return exact(x, y)
                    ok = len(ra) == len(ea) and all(lenient(x, y, o) for x, y, o in zip(ra, ea, a1)) and set(rk) == set(ek) and \
                        all(lenient(rk[n], ek[n], k1[n]) for n in ek)
                if not ok:
                    out.append(Discrepancy('C12/%s/received-arguments-differ-from-reference' % tag,
                                           'tol=%r: passed %r %r, function received %r %r, reference %r %r' % (tol, a1, k1, ra, rk, ea, ek)))
                elif sk != 'shallow':
                    # the second call through the same decorator receives ITS OWN rounded arguments
                    g(*a2, **k2)
                    if len(log) == 2:
                        ra, rk = log[1]
                        ea, ek = R_call(a2, k2, tol, sk)
                        if not (exact(tuple(ra), ea) and exact(dict(rk), ek)):
                            out.append(Discrepancy('C12/%s/second-call-received-arguments-differ-from-reference' % tag,
                                                   'tol=%r: after a call with %r %r, passed %r %r, function received %r %r, reference %r %r' % (tol, a1, k1, a2, k2, ra, rk, ea, ek)))
    except Exception as e:
        out.append(Discrepancy('C12/%s/valid-call-raised/%s' % (tag, H.exc_sig(e)), 'tol=%r deep=%r args=%r kwds=%r: %r' % (tol, deep, a1, k1, e)))
    for sp, obj in list(zip(case['args'], a1)) + [(v, k1[n]) for n, v in case['kws'] if n in k1]:
        if sp[0] == 'Z':
            classes.append('iterator_argument')
            left = len(list(obj))
            if left != len(sp[1]) and not out:
                out.append(Discrepancy('C12/%s/iterator-argument-consumed' % tag, 'tol=%r deep=%r: an iterator over %d items passed as an argument has %d left afterwards' % (tol, deep, len(sp[1]), left)))
    nt = None
    straddle = case['nudged'] is not None and not shares
    if maxdepth >= 1 or (tol is not None and tol < 0) or nonstr or straddle:
        nt = (tol, deep, path, case.get('standalone') if path == 'standalone' else None, [skeleton(s) for s in case['args']],
              [(n, skeleton(v)) for n, v in case['kws']], shares)
    if straddle:
        classes.append('straddles_boundary')
    if case.get('twin'):
        classes.append('second_call_is_typed_twin')
    if case.get('alias'):
        classes.append('same_object_twice')
    if any('N(' in skeleton(sp) or skeleton(sp) == 'G' or 'G' in skeleton(sp) for sp in specs):
        classes.append('namedtuple_or_range_argument')
    return out, nt, classes


REQUIRED_CLASSES = ['iterator_argument', 'namedtuple_or_range_argument', 'same_object_twice', 'second_call_is_typed_twin', 'tol:16', 'tol:20', 'dict_subclass', 'pair_shares', 'pair_differs', 'straddles_boundary', 'nonstr_dict_key', 'floatdepth:1', 'floatdepth:2', 'tol:-1', 'tol:None', 'tol:0',
                    'deep:True', 'deep:False', 'path:standalone', 'path:call', 'path:key', 'path:keygen']
TRIGGERS = {}
