/* vshim: libc interposition for the klepto crash-atomicity (C13) and concurrency (C14) checks.
 *
 * Loaded with LD_PRELOAD into the harness interpreter; inert until armed through ctypes.
 * Only calls that concern paths under the armed ROOT directory are events.
 *
 *   vshim_arm(root, k, frac_mode, logfd)   count/crash mode
 *        k == 0 : count only.  k >= 1 : the k-th MUTATING event _exit(137)s BEFORE executing
 *        (a true kill: no finally, no flush).  If that event is a write of n bytes and
 *        frac_mode == 1: n/2 bytes are really written first; frac_mode == 2: n-1 bytes.
 *        logfd >= 0: one text line per mutating event "<index> <kind> <path>\n".
 *   vshim_disarm() -> number of mutating events seen since arm
 *   vshim_step(root, evfd, grantfd)        step mode: before EVERY interposed call (mutating or
 *        reading, under root; and every sleep) the process writes "<pid> <index> <kind> <path>\n"
 *        to evfd and blocks until one byte arrives on grantfd.
 */
#define _GNU_SOURCE
#include <dlfcn.h>
#include <fcntl.h>
#include <stdarg.h>
#include <stdio.h>
#include <stdlib.h>
#include <string.h>
#include <unistd.h>
#include <errno.h>
#include <limits.h>
#include <dirent.h>
#include <sys/types.h>
#include <sys/stat.h>
#include <sys/uio.h>
#include <time.h>

#define MAXFD 4096

static int armed = 0;       /* 0 inert, 1 count/crash, 2 step */
static char root[PATH_MAX];
static size_t rootlen = 0;
static long kill_at = 0;
static int frac_mode = 0;
static int logfd = -1;
static long nevents = 0;    /* mutating events */
static long nall = 0;       /* all events (step mode index) */
static int evfd = -1, grantfd = -1;
static char *fdpath[MAXFD];
static char fdwr[MAXFD];

#define REAL(name) static __typeof__(name) *real_##name = NULL; if (!real_##name) real_##name = dlsym(RTLD_NEXT, #name)

static ssize_t raw_write(int fd, const void *buf, size_t n) {
    static ssize_t (*w)(int, const void *, size_t) = NULL;
    if (!w) w = dlsym(RTLD_NEXT, "write");
    return w(fd, buf, n);
}
static ssize_t raw_read(int fd, void *buf, size_t n) {
    static ssize_t (*r)(int, void *, size_t) = NULL;
    if (!r) r = dlsym(RTLD_NEXT, "read");
    return r(fd, buf, n);
}

/* resolve (dirfd, path) to an absolute string in out; returns 1 if under root */
static int under(int dirfd, const char *path, char *out) {
    if (!armed || !path) return 0;
    if (path[0] == '/') {
        snprintf(out, PATH_MAX, "%s", path);
    } else if (dirfd == AT_FDCWD) {
        char cwd[PATH_MAX];
        if (!getcwd(cwd, sizeof cwd)) return 0;
        snprintf(out, PATH_MAX, "%s/%s", cwd, path);
    } else if (dirfd >= 0 && dirfd < MAXFD && fdpath[dirfd]) {
        snprintf(out, PATH_MAX, "%s/%s", fdpath[dirfd], path);
    } else {
        return 0;
    }
    return strncmp(out, root, rootlen) == 0 && (out[rootlen] == '/' || out[rootlen] == 0);
}

static void track(int fd, const char *abs, int writable) {
    if (fd < 0 || fd >= MAXFD) return;
    if (fdpath[fd]) free(fdpath[fd]);
    fdpath[fd] = strdup(abs);
    fdwr[fd] = (char)writable;
}
static void untrack(int fd) {
    if (fd < 0 || fd >= MAXFD) return;
    if (fdpath[fd]) { free(fdpath[fd]); fdpath[fd] = NULL; }
    fdwr[fd] = 0;
}
static int tracked(int fd) { return fd >= 0 && fd < MAXFD && fdpath[fd] != NULL; }

/* an event is about to happen. mutating: 1/0. For writes: buf/n given so that a partial write can be made. */
static void event(int mutating, const char *kind, const char *path, int wfd, const void *buf, size_t n, off_t off, int positioned) {
    char line[PATH_MAX + 64];
    if (!armed) return;
    nall++;
    if (armed == 2) {
        int len = snprintf(line, sizeof line, "%d %ld %s %s %s\n", (int)getpid(), nall, mutating ? "M" : "R", kind, path ? path : "-");
        raw_write(evfd, line, (size_t)len);
        char c;
        while (raw_read(grantfd, &c, 1) < 0 && errno == EINTR) {}
        return;
    }
    if (!mutating) return;
    nevents++;
    if (logfd >= 0) {
        int len = snprintf(line, sizeof line, "%ld %s %s\n", nevents, kind, path ? path : "-");
        raw_write(logfd, line, (size_t)len);
    }
    if (kill_at > 0 && nevents == kill_at) {
        if (buf && n > 0 && frac_mode) {
            size_t part = frac_mode == 1 ? n / 2 : n - 1;
            if (part > 0) {
                if (positioned) {
                    static ssize_t (*pw)(int, const void *, size_t, off_t) = NULL;
                    if (!pw) pw = dlsym(RTLD_NEXT, "pwrite64");
                    pw(wfd, buf, part, off);
                } else {
                    raw_write(wfd, buf, part);
                }
            }
        }
        _exit(137);
    }
}

/* ---- control ---- */
void vshim_arm(const char *r, long k, int fmode, int lfd) {
    memset(fdpath, 0, sizeof fdpath);   /* fds opened before arming are not tracked */
    memset(fdwr, 0, sizeof fdwr);
    snprintf(root, sizeof root, "%s", r);
    rootlen = strlen(root);
    kill_at = k; frac_mode = fmode; logfd = lfd; nevents = 0; nall = 0;
    armed = 1;
}
long vshim_disarm(void) { armed = 0; return nevents; }
void vshim_step(const char *r, int efd, int gfd) {
    memset(fdpath, 0, sizeof fdpath);
    memset(fdwr, 0, sizeof fdwr);
    snprintf(root, sizeof root, "%s", r);
    rootlen = strlen(root);
    evfd = efd; grantfd = gfd; nall = 0; nevents = 0;
    armed = 2;
}
long vshim_count(void) { return armed == 2 ? nall : nevents; }

/* ---- open family ---- */
static int is_write_flags(int flags) { return (flags & (O_WRONLY | O_RDWR | O_CREAT | O_TRUNC | O_APPEND)) != 0; }

static int do_open(const char *name, int dirfd, const char *path, int flags, mode_t mode, int use_at) {
    static int (*ropen)(const char *, int, ...) = NULL;
    static int (*ropenat)(int, const char *, int, ...) = NULL;
    if (!ropen) ropen = dlsym(RTLD_NEXT, "open64");
    if (!ropenat) ropenat = dlsym(RTLD_NEXT, "openat64");
    char abs[PATH_MAX];
    int u = under(dirfd, path, abs);
    int w = is_write_flags(flags);
    if (u) event(w, w ? "open-w" : "open-r", abs, -1, NULL, 0, 0, 0);
    int fd = use_at ? ropenat(dirfd, path, flags, mode) : ropen(path, flags, mode);
    if (u && fd >= 0) track(fd, abs, w);
    (void)name;
    return fd;
}
int open(const char *path, int flags, ...) { mode_t m = 0; if (flags & (O_CREAT | O_TMPFILE)) { va_list a; va_start(a, flags); m = va_arg(a, mode_t); va_end(a); } return do_open("open", AT_FDCWD, path, flags, m, 0); }
int open64(const char *path, int flags, ...) { mode_t m = 0; if (flags & (O_CREAT | O_TMPFILE)) { va_list a; va_start(a, flags); m = va_arg(a, mode_t); va_end(a); } return do_open("open64", AT_FDCWD, path, flags, m, 0); }
int openat(int dfd, const char *path, int flags, ...) { mode_t m = 0; if (flags & (O_CREAT | O_TMPFILE)) { va_list a; va_start(a, flags); m = va_arg(a, mode_t); va_end(a); } return do_open("openat", dfd, path, flags, m, 1); }
int openat64(int dfd, const char *path, int flags, ...) { mode_t m = 0; if (flags & (O_CREAT | O_TMPFILE)) { va_list a; va_start(a, flags); m = va_arg(a, mode_t); va_end(a); } return do_open("openat64", dfd, path, flags, m, 1); }
int creat(const char *path, mode_t mode) { return do_open("creat", AT_FDCWD, path, O_CREAT | O_WRONLY | O_TRUNC, mode, 0); }
int creat64(const char *path, mode_t mode) { return do_open("creat64", AT_FDCWD, path, O_CREAT | O_WRONLY | O_TRUNC, mode, 0); }

int close(int fd) {
    REAL(close);
    if (armed && tracked(fd)) {
        if (fdwr[fd]) event(1, "close-w", fdpath[fd], -1, NULL, 0, 0, 0);
        else if (armed == 2) event(0, "close-r", fdpath[fd], -1, NULL, 0, 0, 0);
        untrack(fd);
    }
    return real_close(fd);
}

/* ---- writes ---- */
ssize_t write(int fd, const void *buf, size_t n) {
    if (armed && tracked(fd)) event(1, "write", fdpath[fd], fd, buf, n, 0, 0);
    return raw_write(fd, buf, n);
}
ssize_t pwrite(int fd, const void *buf, size_t n, off_t off) {
    static ssize_t (*r)(int, const void *, size_t, off_t) = NULL; if (!r) r = dlsym(RTLD_NEXT, "pwrite64");
    if (armed && tracked(fd)) event(1, "pwrite", fdpath[fd], fd, buf, n, off, 1);
    return r(fd, buf, n, off);
}
ssize_t pwrite64(int fd, const void *buf, size_t n, off_t off) {
    static ssize_t (*r)(int, const void *, size_t, off_t) = NULL; if (!r) r = dlsym(RTLD_NEXT, "pwrite64");
    if (armed && tracked(fd)) event(1, "pwrite", fdpath[fd], fd, buf, n, off, 1);
    return r(fd, buf, n, off);
}
ssize_t writev(int fd, const struct iovec *iov, int cnt) {
    REAL(writev);
    if (armed && tracked(fd)) event(1, "writev", fdpath[fd], fd, cnt > 0 ? iov[0].iov_base : NULL, cnt > 0 ? iov[0].iov_len : 0, 0, 0);
    return real_writev(fd, iov, cnt);
}
int ftruncate(int fd, off_t len) { static int (*r)(int, off_t) = NULL; if (!r) r = dlsym(RTLD_NEXT, "ftruncate64"); if (armed && tracked(fd)) event(1, "ftruncate", fdpath[fd], -1, NULL, 0, 0, 0); return r(fd, len); }
int ftruncate64(int fd, off_t len) { static int (*r)(int, off_t) = NULL; if (!r) r = dlsym(RTLD_NEXT, "ftruncate64"); if (armed && tracked(fd)) event(1, "ftruncate", fdpath[fd], -1, NULL, 0, 0, 0); return r(fd, len); }
int truncate(const char *p, off_t len) { static int (*r)(const char *, off_t) = NULL; if (!r) r = dlsym(RTLD_NEXT, "truncate64"); char abs[PATH_MAX]; if (under(AT_FDCWD, p, abs)) event(1, "truncate", abs, -1, NULL, 0, 0, 0); return r(p, len); }
int truncate64(const char *p, off_t len) { static int (*r)(const char *, off_t) = NULL; if (!r) r = dlsym(RTLD_NEXT, "truncate64"); char abs[PATH_MAX]; if (under(AT_FDCWD, p, abs)) event(1, "truncate", abs, -1, NULL, 0, 0, 0); return r(p, len); }
int fsync(int fd) { REAL(fsync); if (armed && tracked(fd)) event(1, "fsync", fdpath[fd], -1, NULL, 0, 0, 0); return real_fsync(fd); }
int fdatasync(int fd) { REAL(fdatasync); if (armed && tracked(fd)) event(1, "fdatasync", fdpath[fd], -1, NULL, 0, 0, 0); return real_fdatasync(fd); }
int posix_fallocate(int fd, off_t o, off_t l) { static int (*r)(int, off_t, off_t) = NULL; if (!r) r = dlsym(RTLD_NEXT, "posix_fallocate64"); if (armed && tracked(fd)) event(1, "fallocate", fdpath[fd], -1, NULL, 0, 0, 0); return r(fd, o, l); }
int posix_fallocate64(int fd, off_t o, off_t l) { static int (*r)(int, off_t, off_t) = NULL; if (!r) r = dlsym(RTLD_NEXT, "posix_fallocate64"); if (armed && tracked(fd)) event(1, "fallocate", fdpath[fd], -1, NULL, 0, 0, 0); return r(fd, o, l); }
ssize_t copy_file_range(int fi, off_t *oi, int fo, off_t *oo, size_t len, unsigned int fl) {
    REAL(copy_file_range);
    if (armed && tracked(fo)) event(1, "copy_file_range", fdpath[fo], -1, NULL, 0, 0, 0);
    return real_copy_file_range(fi, oi, fo, oo, len, fl);
}
ssize_t sendfile(int fo, int fi, off_t *off, size_t n) { static ssize_t (*r)(int, int, off_t *, size_t) = NULL; if (!r) r = dlsym(RTLD_NEXT, "sendfile64"); if (armed && tracked(fo)) event(1, "sendfile", fdpath[fo], -1, NULL, 0, 0, 0); return r(fo, fi, off, n); }
ssize_t sendfile64(int fo, int fi, off_t *off, size_t n) { static ssize_t (*r)(int, int, off_t *, size_t) = NULL; if (!r) r = dlsym(RTLD_NEXT, "sendfile64"); if (armed && tracked(fo)) event(1, "sendfile", fdpath[fo], -1, NULL, 0, 0, 0); return r(fo, fi, off, n); }

/* ---- namespace ---- */
int mkdir(const char *p, mode_t m) { REAL(mkdir); char abs[PATH_MAX]; if (under(AT_FDCWD, p, abs)) event(1, "mkdir", abs, -1, NULL, 0, 0, 0); return real_mkdir(p, m); }
int mkdirat(int d, const char *p, mode_t m) { REAL(mkdirat); char abs[PATH_MAX]; if (under(d, p, abs)) event(1, "mkdir", abs, -1, NULL, 0, 0, 0); return real_mkdirat(d, p, m); }
int rename(const char *a, const char *b) { REAL(rename); char abs[PATH_MAX], abs2[PATH_MAX]; int u1 = under(AT_FDCWD, a, abs), u2 = under(AT_FDCWD, b, abs2); if (u1 || u2) { char both[2 * PATH_MAX + 8]; snprintf(both, sizeof both, "%s -> %s", abs, abs2); event(1, "rename", both, -1, NULL, 0, 0, 0); } return real_rename(a, b); }
int renameat(int da, const char *a, int db, const char *b) { REAL(renameat); char abs[PATH_MAX], abs2[PATH_MAX]; int u1 = under(da, a, abs), u2 = under(db, b, abs2); if (u1 || u2) { char both[2 * PATH_MAX + 8]; snprintf(both, sizeof both, "%s -> %s", abs, abs2); event(1, "rename", both, -1, NULL, 0, 0, 0); } return real_renameat(da, a, db, b); }
int renameat2(int da, const char *a, int db, const char *b, unsigned int fl) { REAL(renameat2); char abs[PATH_MAX], abs2[PATH_MAX]; int u1 = under(da, a, abs), u2 = under(db, b, abs2); if (u1 || u2) { char both[2 * PATH_MAX + 8]; snprintf(both, sizeof both, "%s -> %s", abs, abs2); event(1, "rename", both, -1, NULL, 0, 0, 0); } return real_renameat2(da, a, db, b, fl); }
int unlink(const char *p) { REAL(unlink); char abs[PATH_MAX]; if (under(AT_FDCWD, p, abs)) event(1, "unlink", abs, -1, NULL, 0, 0, 0); return real_unlink(p); }
int unlinkat(int d, const char *p, int fl) { REAL(unlinkat); char abs[PATH_MAX]; if (under(d, p, abs)) event(1, (fl & AT_REMOVEDIR) ? "rmdir" : "unlink", abs, -1, NULL, 0, 0, 0); return real_unlinkat(d, p, fl); }
int rmdir(const char *p) { REAL(rmdir); char abs[PATH_MAX]; if (under(AT_FDCWD, p, abs)) event(1, "rmdir", abs, -1, NULL, 0, 0, 0); return real_rmdir(p); }
int link(const char *a, const char *b) { REAL(link); char abs[PATH_MAX]; if (under(AT_FDCWD, b, abs)) event(1, "link", abs, -1, NULL, 0, 0, 0); return real_link(a, b); }
int linkat(int da, const char *a, int db, const char *b, int fl) { REAL(linkat); char abs[PATH_MAX]; if (under(db, b, abs)) event(1, "link", abs, -1, NULL, 0, 0, 0); return real_linkat(da, a, db, b, fl); }
int symlink(const char *a, const char *b) { REAL(symlink); char abs[PATH_MAX]; if (under(AT_FDCWD, b, abs)) event(1, "symlink", abs, -1, NULL, 0, 0, 0); return real_symlink(a, b); }
int symlinkat(const char *a, int d, const char *b) { REAL(symlinkat); char abs[PATH_MAX]; if (under(d, b, abs)) event(1, "symlink", abs, -1, NULL, 0, 0, 0); return real_symlinkat(a, d, b); }
int chmod(const char *p, mode_t m) { REAL(chmod); char abs[PATH_MAX]; if (under(AT_FDCWD, p, abs)) event(1, "chmod", abs, -1, NULL, 0, 0, 0); return real_chmod(p, m); }
int fchmod(int fd, mode_t m) { REAL(fchmod); if (armed && tracked(fd)) event(1, "fchmod", fdpath[fd], -1, NULL, 0, 0, 0); return real_fchmod(fd, m); }
int fchmodat(int d, const char *p, mode_t m, int fl) { REAL(fchmodat); char abs[PATH_MAX]; if (under(d, p, abs)) event(1, "chmod", abs, -1, NULL, 0, 0, 0); return real_fchmodat(d, p, m, fl); }
int fchown(int fd, uid_t u, gid_t g) { REAL(fchown); if (armed && tracked(fd)) event(1, "fchown", fdpath[fd], -1, NULL, 0, 0, 0); return real_fchown(fd, u, g); }
int utimensat(int d, const char *p, const struct timespec t[2], int fl) { REAL(utimensat); char abs[PATH_MAX]; if (p && under(d, p, abs)) event(1, "utimens", abs, -1, NULL, 0, 0, 0); else if (!p && armed && tracked(d)) event(1, "utimens", fdpath[d], -1, NULL, 0, 0, 0); return real_utimensat(d, p, t, fl); }
int futimens(int fd, const struct timespec t[2]) { REAL(futimens); if (armed && tracked(fd)) event(1, "utimens", fdpath[fd], -1, NULL, 0, 0, 0); return real_futimens(fd, t); }

/* ---- read side (events only in step mode) ---- */
ssize_t read(int fd, void *buf, size_t n) {
    if (armed == 2 && tracked(fd)) event(0, "read", fdpath[fd], -1, NULL, 0, 0, 0);
    return raw_read(fd, buf, n);
}
ssize_t pread(int fd, void *buf, size_t n, off_t off) { static ssize_t (*r)(int, void *, size_t, off_t) = NULL; if (!r) r = dlsym(RTLD_NEXT, "pread64"); if (armed == 2 && tracked(fd)) event(0, "pread", fdpath[fd], -1, NULL, 0, 0, 0); return r(fd, buf, n, off); }
ssize_t pread64(int fd, void *buf, size_t n, off_t off) { static ssize_t (*r)(int, void *, size_t, off_t) = NULL; if (!r) r = dlsym(RTLD_NEXT, "pread64"); if (armed == 2 && tracked(fd)) event(0, "pread", fdpath[fd], -1, NULL, 0, 0, 0); return r(fd, buf, n, off); }
ssize_t readv(int fd, const struct iovec *iov, int cnt) { REAL(readv); if (armed == 2 && tracked(fd)) event(0, "readv", fdpath[fd], -1, NULL, 0, 0, 0); return real_readv(fd, iov, cnt); }

#define STATLIKE(fname, realname) \
int fname(const char *p, struct stat *st) { static int (*r)(const char *, struct stat *) = NULL; if (!r) r = dlsym(RTLD_NEXT, realname); char abs[PATH_MAX]; if (armed == 2 && under(AT_FDCWD, p, abs)) event(0, "stat", abs, -1, NULL, 0, 0, 0); return r(p, st); }
STATLIKE(stat, "stat64")
int stat64(const char *p, struct stat64 *st) { static int (*r)(const char *, struct stat64 *) = NULL; if (!r) r = dlsym(RTLD_NEXT, "stat64"); char abs[PATH_MAX]; if (armed == 2 && under(AT_FDCWD, p, abs)) event(0, "stat", abs, -1, NULL, 0, 0, 0); return r(p, st); }
STATLIKE(lstat, "lstat64")
int lstat64(const char *p, struct stat64 *st) { static int (*r)(const char *, struct stat64 *) = NULL; if (!r) r = dlsym(RTLD_NEXT, "lstat64"); char abs[PATH_MAX]; if (armed == 2 && under(AT_FDCWD, p, abs)) event(0, "stat", abs, -1, NULL, 0, 0, 0); return r(p, st); }
int fstatat(int d, const char *p, struct stat *st, int fl) { static int (*r)(int, const char *, struct stat *, int) = NULL; if (!r) r = dlsym(RTLD_NEXT, "fstatat64"); char abs[PATH_MAX]; if (armed == 2 && p && under(d, p, abs)) event(0, "stat", abs, -1, NULL, 0, 0, 0); return r(d, p, st, fl); }
int fstatat64(int d, const char *p, struct stat64 *st, int fl) { static int (*r)(int, const char *, struct stat64 *, int) = NULL; if (!r) r = dlsym(RTLD_NEXT, "fstatat64"); char abs[PATH_MAX]; if (armed == 2 && p && under(d, p, abs)) event(0, "stat", abs, -1, NULL, 0, 0, 0); return r(d, p, st, fl); }
int access(const char *p, int m) { REAL(access); char abs[PATH_MAX]; if (armed == 2 && under(AT_FDCWD, p, abs)) event(0, "access", abs, -1, NULL, 0, 0, 0); return real_access(p, m); }
int faccessat(int d, const char *p, int m, int fl) { REAL(faccessat); char abs[PATH_MAX]; if (armed == 2 && under(d, p, abs)) event(0, "access", abs, -1, NULL, 0, 0, 0); return real_faccessat(d, p, m, fl); }

/* directory listing: DIR* -> path map (small) */
#define MAXDIRS 64
static DIR *dirs[MAXDIRS]; static char *dirpaths[MAXDIRS];
static void dir_track(DIR *d, const char *abs) { for (int i = 0; i < MAXDIRS; i++) if (!dirs[i]) { dirs[i] = d; dirpaths[i] = strdup(abs); return; } }
static const char *dir_path(DIR *d) { for (int i = 0; i < MAXDIRS; i++) if (dirs[i] == d) return dirpaths[i]; return NULL; }
static void dir_untrack(DIR *d) { for (int i = 0; i < MAXDIRS; i++) if (dirs[i] == d) { dirs[i] = NULL; free(dirpaths[i]); dirpaths[i] = NULL; return; } }
DIR *opendir(const char *p) { REAL(opendir); char abs[PATH_MAX]; int u = under(AT_FDCWD, p, abs); if (armed == 2 && u) event(0, "opendir", abs, -1, NULL, 0, 0, 0); DIR *d = real_opendir(p); if (d && u) dir_track(d, abs); return d; }
DIR *fdopendir(int fd) { REAL(fdopendir); int u = armed && tracked(fd); char abs[PATH_MAX]; if (u) snprintf(abs, sizeof abs, "%s", fdpath[fd]); if (armed == 2 && u) event(0, "opendir", abs, -1, NULL, 0, 0, 0); DIR *d = real_fdopendir(fd); if (d && u) dir_track(d, abs); return d; }
struct dirent *readdir(DIR *d) { static struct dirent *(*r)(DIR *) = NULL; if (!r) r = dlsym(RTLD_NEXT, "readdir64"); const char *p = armed == 2 ? dir_path(d) : NULL; if (p) event(0, "readdir", p, -1, NULL, 0, 0, 0); return r(d); }
struct dirent64 *readdir64(DIR *d) { static struct dirent64 *(*r)(DIR *) = NULL; if (!r) r = dlsym(RTLD_NEXT, "readdir64"); const char *p = armed == 2 ? dir_path(d) : NULL; if (p) event(0, "readdir", p, -1, NULL, 0, 0, 0); return r(d); }
int closedir(DIR *d) { REAL(closedir); if (armed) { int fd = dirfd(d); if (fd >= 0) untrack(fd); dir_untrack(d); } return real_closedir(d); }

/* locks and sleeps (sqlite): yield points in step mode */
int fcntl64(int fd, int cmd, ...) {
    static int (*r)(int, int, ...) = NULL; if (!r) r = dlsym(RTLD_NEXT, "fcntl64");
    va_list a; va_start(a, cmd); void *arg = va_arg(a, void *); va_end(a);
    if (armed == 2 && tracked(fd) && (cmd == F_SETLK || cmd == F_SETLKW || cmd == F_OFD_SETLK || cmd == F_OFD_SETLKW)) event(0, "lock", fdpath[fd], -1, NULL, 0, 0, 0);
    return r(fd, cmd, arg);
}
int fcntl(int fd, int cmd, ...) {
    static int (*r)(int, int, ...) = NULL; if (!r) r = dlsym(RTLD_NEXT, "fcntl64");
    va_list a; va_start(a, cmd); void *arg = va_arg(a, void *); va_end(a);
    if (armed == 2 && tracked(fd) && (cmd == F_SETLK || cmd == F_SETLKW || cmd == F_OFD_SETLK || cmd == F_OFD_SETLKW)) event(0, "lock", fdpath[fd], -1, NULL, 0, 0, 0);
    return r(fd, cmd, arg);
}
int usleep(useconds_t us) { REAL(usleep); if (armed == 2) { event(0, "sleep", "-", -1, NULL, 0, 0, 0); return 0; } return real_usleep(us); }
unsigned int sleep(unsigned int s) { REAL(sleep); if (armed == 2) { event(0, "sleep", "-", -1, NULL, 0, 0, 0); return 0; } return real_sleep(s); }
